#!/bin/bash
# Builds bin/mc.test from /verif/mc against /repo's current working tree with hooks enabled.
set -eu
ROOT="$(cd "$(dirname "$0")" && pwd)"
cd "$ROOT"
export GOFLAGS=-mod=mod GOPROXY=off GOSUMDB=off GOTOOLCHAIN=local
# the tree under test: /repo unless a seed run (seedpar.sh) points at a scratch worktree
export VERIF_REPO="${VERIF_REPO:-/repo}"
# go.mod: the repository's own requirements (so that no module lookup is ever needed) + the harness' extras
python3 - "$ROOT" <<'PY'
import re,sys
root=sys.argv[1]
import os
repo=os.environ.get('VERIF_REPO','/repo')
src=open(repo+'/go.mod').read()
reqs=re.findall(r'^require \((.*?)^\)', src, re.M|re.S)
single=re.findall(r'^require ([^\s(]+ [^\s]+)', src, re.M)
repl=re.findall(r'^replace .*$', src, re.M)
lines=[]
for block in reqs:
    for l in block.strip().split('\n'):
        l=l.strip()
        if l and not l.startswith('//'): lines.append(l.split('//')[0].strip())
lines+= [s.strip() for s in single]
extra=[l.strip() for l in open(root+'/go.mod.extra').read().split('\n') if l.strip() and not l.startswith('#')]
out='module verif\n\ngo 1.26.8\n\nrequire (\n\tgithub.com/onosproject/onos-config v0.0.0\n'+''.join('\t%s\n'%l for l in sorted(set(lines+extra)))+')\n\nreplace github.com/onosproject/onos-config => '+repo+'\n'+''.join(r+'\n' for r in repl)
open(root+'/go.mod','w').write(out)
PY
cp "$VERIF_REPO/go.sum" "$ROOT/go.sum.repo" 2>/dev/null && cat "$ROOT/go.sum.repo" "$ROOT/go.sum.extra" 2>/dev/null | sort -u > "$ROOT/go.sum" || true
rm -f "$ROOT/go.sum.repo"
[ -f "$ROOT/.detrt/overlay.json" ] || python3 "$ROOT/detrt/gen.py"
OVERLAY=(-overlay "$ROOT/.detrt/overlay.json")
mkdir -p bin
(
  flock 9
  go1.26.8 test -c -vet=off -tags verif "${OVERLAY[@]}" -o bin/mc.test ./mc
) 9>"$ROOT/.build.lock"
