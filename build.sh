#!/bin/bash
# Builds bin/mc.test from /verif/mc against /repo's current working tree with hooks enabled.
set -eu
ROOT="$(cd "$(dirname "$0")" && pwd)"
cd "$ROOT"
export GOFLAGS=-mod=mod GOPROXY=off GOSUMDB=off GOTOOLCHAIN=local
cp /repo/go.sum "$ROOT/go.sum.repo" 2>/dev/null && cat "$ROOT/go.sum.repo" "$ROOT/go.sum.extra" 2>/dev/null | sort -u > "$ROOT/go.sum" || true
rm -f "$ROOT/go.sum.repo"
OVERLAY=()
if [ -f "$ROOT/.detrt/overlay.json" ]; then OVERLAY=(-overlay "$ROOT/.detrt/overlay.json"); fi
mkdir -p bin
(
  flock 9
  go1.26.8 test -c -vet=off -tags verif "${OVERLAY[@]}" -o bin/mc.test ./mc
) 9>"$ROOT/.build.lock"
