#!/opt/veriftools/pyvenv/bin/python
import json,sys,glob,jsonschema
jsonschema.validate(json.load(open('/verif/MANIFEST.json')),json.load(open('/root/.vp/MANIFEST.schema.json')))
es=json.load(open('/root/.vp/EVIDENCE.schema.json'))
m=json.load(open('/verif/MANIFEST.json'))
claimed={c['property_id'] for c in m['checks']}
na={c['property_id'] for c in m.get('not_applicable',[])}
allp={json.loads(l)['id'] for l in open('/verif/properties.jsonl')}
print('claimed',sorted(claimed)); print('not_applicable',sorted(na)); print('UNLISTED',sorted(allp-claimed-na))
for f in sorted(glob.glob('/verif/evidence/*.json')):
    try:
        jsonschema.validate(json.load(open(f)),es); print('ok',f)
    except Exception as e:
        print('INVALID',f,str(e)[:300])
