#!/usr/bin/env python3
# Generates /verif/MANIFEST.json from the table below (kept valid at all times).
import json
HOOK_COMMITS=["b744814"]
BASE="for m in $(cat /w/out/gomods.txt); do MF=$(cd /repo/$m && . /w/out/goenv.sh && gomodflag); (cd /repo/$m && go test $MF -json -vet=off -count=1 -timeout 25m ./...); done"
EX="exploration"; MC="model_checking"
# id: (engine, category, text, note, technique)
CHECKS={
 "C16":("E3p",EX,"bounded-exhaustive enumeration of every gNMI path of the stated shape bound against round-trip, injectivity, split and parent oracles",
        "names are YANG identifiers; key values over a 10-character alphabet incl. escape-worthy characters, lengths 1..2 (3 thorough)",
        "bounded-exhaustive input enumeration against a reference (all inputs up to a shape bound)"),
 "C17":("E3p",EX,"bounded-exhaustive enumeration of every scalar kind x width x boundary value and homogeneous leaf-lists through the real conversion and JSON rendering functions (v2 and v3), compared with an independent RFC 7951 expectation",
        "value alphabet is the stated boundary set; the end-to-end journey (device request, Get) is covered by the world-based checks",
        "bounded-exhaustive input enumeration against a reference (all inputs of a boundary-value alphabet)"),
 "C18":("E3p",EX,"every subset of bounded size of a universe of path/values and tombstones through BuildTree / PrunePathValues / PrunePathMap (v2 and v3), compared with an independent schema-aware flattener and an element-aware subtree relation",
        "universe of 28 paths (20 leaves live or tombstoned, 8 subtree tombstones); subsets of size <=4 (quick) / <=5 (thorough)",
        "bounded-exhaustive input enumeration against a reference (all subsets up to a size bound)"),
 "C03":("E3h",EX,"every history of Set requests up to a length bound (BFS from every distinct reached state) is run through the real Set handler, stores and controllers to idle; after every acknowledged Set a fixed list of Get queries (PROTO and JSON) is compared with an independent reference model of gNMI semantics; multi-operation requests are re-run under every operation permutation and every single map-iteration-order deviation",
        "default oldest-first schedule (interleavings belong to C01/C02/C09); alphabet of 19 requests, 21 Get queries; length <=3 (quick) / <=4 (thorough); atomix replaced by simatomix (bound to the real one by ./check conformance)",
        "bounded-exhaustive history enumeration on the real code against a reference model (explicit-state BFS over request histories, snapshot/restore)"),
 "C01":("E1a+E1x",MC,"explicit-state search of the any-time graph of the real controllers (every reconciler on every object from every state, effectful calls are transitions; single crashes at every effect boundary) for multi-target Sets with every verdict combination and neighbouring transactions; the all-or-nothing oracle is evaluated with the real Get on every state whose transaction is decided; candidates are confirmed by a search for an exact-queue (FIFO per watcher) schedule that is then executed for real",
        "one Reconcile call is atomic; atomix replaced by simatomix; a single onos-config node; 2-3 targets, 1-2 transactions, <=1 crash",
        "explicit-state model checking of the implementation (stateful BFS with snapshot/restore over real reconcile steps) + exact-schedule confirmation"),
 "C02":("E1a+E1x",MC,"any-time graph of 2-3 overlapping transactions with crashes and connection faults; monitors on every transition: committed index never decreases, values change only by the merge of the next proposal in index order, every apply request is for a merged proposal whose predecessors have finished, per-device apply indexes never regress; candidates confirmed under exact queues",
        "one Reconcile call is atomic (no pre-emption inside a step); fault budget 2, crash budget 1 (2 thorough)",
        "explicit-state model checking of the implementation with transition monitors + exact-schedule confirmation"),
 "C05":("E1a+E1x+E3h",MC,"any-time graph with document-dependent plugin verdicts; at the commit transition of every proposal the document the fake plugin last accepted for it, flattened independently, must equal the readable configuration; plus candidate documents of 99 999 ... 300 000 bytes through the real Set path (bytes received = bytes rendered, chunks <= 100 000)",
        "the plugin is a fake ModelPluginServiceClient under the real registry; model mini",
        "explicit-state model checking of the implementation with transition monitors + bounded input enumeration for sizes"),
 "C09":("E1w+E1x",MC,"explicit-state search in the work-set model (pending (controller,id) pairs as a set, any order) of the real controllers, watchers and stores; on every idle state: one extra pass of every reconciler over every object must have no effect, and with all targets connected every transaction must be final; every candidate is confirmed by an exact-queue schedule executed for real, otherwise only counted",
        "work-set model is an abstraction (confirmed by E1x before anything is reported); quick tier: 7 scenarios of <=25 000 states, thorough adds two-target and three-transaction scenarios",
        "explicit-state model checking of the implementation (work-set scheduling) + exact-schedule confirmation"),
 "C11":("E1a+E1x",MC,"any-time graph of two Sets on a connected target whose device answers an apply with each of the 16 non-OK gRPC codes (real statuses through the repository's client wrapper), bursts 1..2 (3 thorough), either transaction, with a crash and with SERIALIZABLE isolation; invariants on every state and oracles on the terminal states (nothing can act any more)",
        "device is a simulated gNMI server over bufconn; scripted answers",
        "explicit-state model checking of the implementation with fault enumeration + exact-schedule confirmation"),
 "C04":("E1a+E1x",MC,"any-time graph of Sets and rollbacks on a target whose connection is lost / re-established, whose device restarts empty or is unavailable for a request, anywhere in the history (budgeted); on every terminal state (nothing can act any more) with the target connected, mastered and SYNCHRONIZED the device content must equal the reference built from the transactions whose apply did not fail, in log order; candidates confirmed under exact queues",
        "fault budget 1-3 per scenario; one target; simulated device with element-aware subtree delete and master arbitration",
        "explicit-state model checking of the implementation with fault enumeration + exact-schedule confirmation"),
 "C06":("E3h",EX,"every history of 1..2 (thorough 3) Set requests over the C03 alphabet plus a model-rejected Set, devices connected, run to idle through the real handlers and controllers; then rollback of the latest change (Get and device = state before the change), of that rollback, of the predecessor, again of the first, of a non-latest change, of a failed change, of index 0 and of a missing index",
        "default oldest-first schedule; rollback under crashes and interleavings is explored by the C07/C05/C02 scenarios",
        "bounded-exhaustive history enumeration on the real code against a reference (snapshot before the change)"),
 "C07":("E1a+E1w+E1x",MC,"any-time graph with crash@k for every effectful step and every k (process dies before its (k+1)-th external effect, restarts, records replayed), differential oracle on the terminal states (outcome with a crash must be an outcome without), merge monitor (no change merged twice or out of order), plus a work-set exploration where only the tokens replayed by the real watchers survive a restart; candidates confirmed under exact queues",
        "single crash (pairs in thorough); 1-3 transactions, 1-2 targets",
        "explicit-state model checking of the implementation with crash-point enumeration + exact-schedule confirmation"),
 "C10":("E1a+E1x",MC,"any-time graph with all six controllers under connection loss / re-establishment, device restart and transient unavailability (budgeted, anywhere); monitors on every transition: term never decreases, a new master gets a larger term, every southbound write carries election id = current term and travels over the master's connection, no change is sent before the re-sync of that term, a re-sync re-sends every applied value; CONTROLS relation <=> connection on terminal states",
        "a single onos-config node (competing connections arise from drop + reconnect before the connection controller reconciles); fault budget 1-3",
        "explicit-state model checking of the implementation with fault enumeration and transition monitors + exact-schedule confirmation"),
 "C13":("E3h",EX,"every Set request of 0..2 (thorough 3) operations over 17 valid and invalid operations x per-path target x prefix target x prefix elems x size limit, plus a malformed extension, through the real handler; refusal => error, log and configurations unchanged; acceptance => the logged change map equals the reference resolution of targets and paths",
        "reference classification is an independent reading of model mini; ~20 000 requests (quick)",
        "bounded-exhaustive input enumeration on the real handler against a reference classification"),
 "C14":("E3h",EX,"every group list of length 0..2 (thorough 3) over 8 group names incl. empty, substrings, superstrings and case variants x identity metadata absent / with name / without name x ADMINGROUPS settings through the real Set handler (permitted iff a caller group equals an admin group; refusal leaves the log unchanged); target listing for every list x OIDC on/off x ROC-admin override unset/empty/custom x encodings",
        "identity metadata is injected as gRPC incoming metadata, as the onos-lib-go interceptor does",
        "bounded-exhaustive input enumeration on the real handler against a reference predicate"),
 "C19":("E3h",EX,"every sequence of <=2 (thorough 3) stream messages (subscribe with prefix absent / empty / naming a target / elems only, entry lists of 0..3 paths over two targets with and without per-path target, three list modes; poll; empty) through the real Subscribe handler with one recording fake client per target and a fake stream: each named target receives exactly its own entries with every field preserved, nobody else receives anything, requests without a target and second subscribes are refused, notifications incl. delete-only ones are relayed 1:1, polls reach exactly the subscribed targets and a failing target ends the stream with an error",
        "southbound clients are fakes behind the repository's conn-manager interface (the property is about fan-out, not about the device protocol)",
        "bounded-exhaustive input-sequence enumeration on the real handler against a reference partition"),
 "C12":("E3h",EX,"a request shape grammar (Set: 7 prefixes x 39 paths x 22 values as update/replace/delete + 23 extension shapes; Get: prefixes x paths x 6 encodings x 4 data types; Capabilities; Subscribe sequences and malformed entries; admin RollbackTransaction / LeafSelectionQuery / GetTransaction / GetConfiguration argument grids) is enumerated exhaustively against three worlds (empty, populated incl. a list entry and a tombstone, configuration without values); every message goes through marshal/unmarshal; the handler and every reconcile step the request causes run under recover(); oracle: no panic anywhere and every call returns",
        "coverage-guided mutation named in the property's quantifier is sampling (another family); the grammar replaces it and is listed in the evidence file; streaming admin calls are not driven",
        "bounded-exhaustive input enumeration on the real handlers and controllers (grammar of request shapes x 3 start states)"),
 "C08":("E2g",MC,"the Set / rollback handler is held at its three store operations (after 'create transaction', before and after the replay read of its watch) by gates in simatomix and the other party's progress is placed exhaustively into the four windows (every k1,k2,k3): part A a scripted controller writing status updates through the real transaction store (success and FAILED with each of the 12 failure classes or none, before validation / after validation / after commit) for asynchronous Set, synchronous Set and rollback; part B the effectful reconcile steps of the real controllers for valid, model-rejected, device-refused (16 gRPC codes), unreachable-target requests and rollbacks; oracle on the handler's answer vs. the final record (answered whenever finished, success only at the awaited stage, error code = recorded class, response = the request's target/path pairs with update/delete marks + stored id/index) and liveness of the next request",
        "pre-emption points are the handler's store operations (3 per request); a reconcile step / status update is atomic; event delivery inside the store runs to quiescence between units; the cancellation-vs-event race after the handler returns is covered by C15",
        "stateless exploration of the implementation under a controlled schedule (exhaustive placement of the concurrent party's steps at the handler's hooked operations)"),
}
NOT_YET="check not built yet in this session (planned, see DESIGN.md §4); not claimed until its check exists and passes"
allp=[json.loads(l)['id'] for l in open('/verif/properties.jsonl')]
checks=[]
for pid in allp:
    if pid in CHECKS:
        e,cat,text,note,tech=CHECKS[pid]
        checks.append({"property_id":pid,"quick_cmd":"./check %s quick"%pid,"thorough_cmd":"./check %s thorough"%pid,
          "evidence_file":"/verif/evidence/%s.json"%pid,"replay_cmd_template":"./check %s quick --replay {path}"%pid,
          "engine":e,"level_claimed":{"category":cat,"text":text,"design_ref":"DESIGN.md §4 "+pid},"level_note":note,"technique":tech})
m={"version":1,"setup_cmd":"./setup.sh",
 "hooks":{"guard":"verif","enable":"go1.26.8 test -c -tags verif (build.sh); hooks are add-only files zz_verif.go guarded by //go:build verif","baseline_off_cmd":BASE,"source_commits":HOOK_COMMITS,"add_only":True},
 "engines":[{"name":"mc","path":"/verif/mc","serves_properties":sorted(CHECKS),"kind_free_text":"hand-written explorers (E1 explicit-state BFS over real reconcile steps, E2 cooperative scheduler DFS, E3 bounded-exhaustive input/history enumeration) running the real onos-config code in testing/synctest bubbles"}],
 "checks":checks,
 "not_applicable":[{"property_id":p,"reason":NOT_YET} for p in allp if p not in CHECKS]}
json.dump(m,open('/verif/MANIFEST.json','w'),indent=1)
