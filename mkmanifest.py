#!/usr/bin/env python3
# Generates /verif/MANIFEST.json from the table below (kept valid at all times).
import json
HOOK_COMMITS=["b744814"]
BASE="for m in $(cat /w/out/gomods.txt); do MF=$(cd /repo/$m && . /w/out/goenv.sh && gomodflag); (cd /repo/$m && go test $MF -json -vet=off -count=1 -timeout 25m ./...); done"
EX="exploration"; MC="model_checking"
# id: (engine, category, text, note, technique)
CHECKS={
 "C16":("E3p",EX,"bounded-exhaustive enumeration of every gNMI path of the stated shape bound against round-trip, injectivity, split and parent oracles",
        "names are YANG identifiers; key values over a 10-character alphabet incl. escape-worthy characters, lengths 1..2 (3 thorough)",
        "bounded-exhaustive input enumeration against a reference (all inputs up to a shape bound)"),
 "C17":("E3p",EX,"bounded-exhaustive enumeration of every scalar kind x width x boundary value and homogeneous leaf-lists through the real conversion and JSON rendering functions (v2 and v3), compared with an independent RFC 7951 expectation",
        "value alphabet is the stated boundary set; the end-to-end journey (device request, Get) is covered by the world-based checks",
        "bounded-exhaustive input enumeration against a reference (all inputs of a boundary-value alphabet)"),
 "C18":("E3p",EX,"every subset of bounded size of a universe of path/values and tombstones through BuildTree / PrunePathValues / PrunePathMap (v2 and v3), compared with an independent schema-aware flattener and an element-aware subtree relation",
        "universe of 28 paths (20 leaves live or tombstoned, 8 subtree tombstones); subsets of size <=4 (quick) / <=5 (thorough)",
        "bounded-exhaustive input enumeration against a reference (all subsets up to a size bound)"),
 "C03":("E3h",EX,"every history of Set requests up to a length bound (BFS from every distinct reached state) is run through the real Set handler, stores and controllers to idle; after every acknowledged Set a fixed list of Get queries (PROTO and JSON) is compared with an independent reference model of gNMI semantics; multi-operation requests are re-run under every operation permutation and every single map-iteration-order deviation",
        "default oldest-first schedule (interleavings belong to C01/C02/C09); alphabet of 19 requests, 21 Get queries; length <=3 (quick) / <=4 (thorough); atomix replaced by simatomix (bound to the real one by ./check conformance)",
        "bounded-exhaustive history enumeration on the real code against a reference model (explicit-state BFS over request histories, snapshot/restore)"),
}
NOT_YET="check not built yet in this session (planned, see DESIGN.md §4); not claimed until its check exists and passes"
allp=[json.loads(l)['id'] for l in open('/verif/properties.jsonl')]
checks=[]
for pid in allp:
    if pid in CHECKS:
        e,cat,text,note,tech=CHECKS[pid]
        checks.append({"property_id":pid,"quick_cmd":"./check %s quick"%pid,"thorough_cmd":"./check %s thorough"%pid,
          "evidence_file":"/verif/evidence/%s.json"%pid,"replay_cmd_template":"./check %s quick --replay {path}"%pid,
          "engine":e,"level_claimed":{"category":cat,"text":text,"design_ref":"DESIGN.md §4 "+pid},"level_note":note,"technique":tech})
m={"version":1,"setup_cmd":"./setup.sh",
 "hooks":{"guard":"verif","enable":"go1.26.8 test -c -tags verif (build.sh); hooks are add-only files zz_verif.go guarded by //go:build verif","baseline_off_cmd":BASE,"source_commits":HOOK_COMMITS,"add_only":True},
 "engines":[{"name":"mc","path":"/verif/mc","serves_properties":sorted(CHECKS),"kind_free_text":"hand-written explorers (E1 explicit-state BFS over real reconcile steps, E2 cooperative scheduler DFS, E3 bounded-exhaustive input/history enumeration) running the real onos-config code in testing/synctest bubbles"}],
 "checks":checks,
 "not_applicable":[{"property_id":p,"reason":NOT_YET} for p in allp if p not in CHECKS]}
json.dump(m,open('/verif/MANIFEST.json','w'),indent=1)
