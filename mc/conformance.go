package mc

import (
	"context"
	"fmt"
	"io"
	"sort"
	"strings"
	"testing/synctest"

	"github.com/atomix/go-sdk/pkg/primitive"
	"github.com/atomix/go-sdk/pkg/primitive/indexedmap"
	_map "github.com/atomix/go-sdk/pkg/primitive/map"
	atomixtest "github.com/atomix/go-sdk/pkg/test"
	"github.com/atomix/go-sdk/pkg/types"
	"github.com/onosproject/onos-lib-go/pkg/errors"
)

// Binding simatomix to the real atomix runtime.
//
//  1. check "conformance": every sequence of up to 3 operations over a small alphabet (map: put / insert / update /
//     update-if-version / remove / remove-if-version / get / list / transactions of two operations, on 2 keys;
//     indexed map: append / update / update-if-version / get / get-by-index / remove / list, on 2 keys) is run on
//     the go-sdk test runtime (the one the repository's own tests use) and on simatomix through the same go-sdk
//     primitives; results (values, error classes, relative order of versions, log indexes) and the event streams
//     observed by a watcher opened before the sequence must be identical.
//  2. trace validation (Explorer.ValidateOnRealAtomix): traces of the explored graphs are re-executed on a world
//     whose stores run on the real test runtime, and the canonical world content after every move is compared with
//     the state the exploration recorded.

type confOp struct {
	Kind string
	Key  string
	Val  string
	Key2 string // transactions: second operation
}

func (o confOp) String() string {
	if o.Key2 != "" {
		return fmt.Sprintf("%s(%s,%s)", o.Kind, o.Key, o.Key2)
	}
	return fmt.Sprintf("%s(%s)", o.Kind, o.Key)
}

func errClass(err error) string {
	if err == nil {
		return "ok"
	}
	err = errors.FromAtomix(err)
	switch {
	case errors.IsNotFound(err):
		return "notfound"
	case errors.IsAlreadyExists(err):
		return "exists"
	case errors.IsConflict(err):
		return "conflict"
	}
	return "error:" + err.Error()
}

// versionRanks replaces version numbers by their rank among all versions seen (the two runtimes number differently).
type ranker struct{ seen []uint64 }

func (r *ranker) note(v uint64) {
	for _, s := range r.seen {
		if s == v {
			return
		}
	}
	r.seen = append(r.seen, v)
}

func (r *ranker) rank(v uint64) int {
	s := append([]uint64{}, r.seen...)
	sort.Slice(s, func(i, j int) bool { return s[i] < s[j] })
	for i, x := range s {
		if x == v {
			return i + 1
		}
	}
	return 0
}

type confRec struct {
	text     string
	versions []uint64
}

func confMapOps() []confOp {
	var ops []confOp
	for _, k := range []string{"a", "b"} {
		for _, kind := range []string{"put", "insert", "update", "update-ifv", "remove", "remove-ifv", "get"} {
			ops = append(ops, confOp{Kind: kind, Key: k, Val: kind[:1] + k})
		}
	}
	ops = append(ops, confOp{Kind: "list"},
		confOp{Kind: "tx-insert-insert", Key: "a", Key2: "b"}, confOp{Kind: "tx-update-remove", Key: "a", Key2: "b"},
		confOp{Kind: "tx-insert-update", Key: "b", Key2: "a"}, confOp{Kind: "tx-remove-remove", Key: "a", Key2: "b"})
	return ops
}

// runMapSequence runs a sequence on a fresh map primitive of the given client and returns the observations.
func runMapSequence(client primitive.Client, name string, seq []confOp) (out []confRec) {
	ctx := context.Background()
	m, err := _map.NewBuilder[string, string](client, name).Tag("verif", "conformance").Codec(types.Scalar[string]()).Get(ctx)
	if err != nil {
		panic(err)
	}
	wctx, cancel := context.WithCancel(ctx)
	defer cancel()
	events, err := m.Events(wctx)
	if err != nil {
		panic(err)
	}
	var evs []confRec
	go func() {
		for {
			e, err := events.Next()
			if err != nil {
				return
			}
			switch x := e.(type) {
			case *_map.Inserted[string, string]:
				evs = append(evs, confRec{fmt.Sprintf("event inserted %s=%s", x.Entry.Key, x.Entry.Value), []uint64{uint64(x.Entry.Version)}})
			case *_map.Updated[string, string]:
				evs = append(evs, confRec{fmt.Sprintf("event updated %s=%s (was %s)", x.Entry.Key, x.Entry.Value, x.PrevEntry.Value), []uint64{uint64(x.Entry.Version), uint64(x.PrevEntry.Version)}})
			case *_map.Removed[string, string]:
				evs = append(evs, confRec{fmt.Sprintf("event removed %s (was %s)", x.Entry.Key, x.Entry.Value), []uint64{uint64(x.Entry.Version)}})
			}
		}
	}()
	synctest.Wait()
	last := map[string]uint64{} // version of the last successful read or write per key (for the -ifv variants)
	entry := func(op confOp, e *_map.Entry[string, string], err error) {
		if err != nil || e == nil {
			out = append(out, confRec{fmt.Sprintf("%s -> %s", op, errClass(err)), nil})
			return
		}
		last[op.Key] = uint64(e.Version)
		out = append(out, confRec{fmt.Sprintf("%s -> ok %s=%s", op, e.Key, e.Value), []uint64{uint64(e.Version)}})
	}
	for pos, op := range seq {
		op.Val = fmt.Sprintf("%s%d", op.Val, pos) // every write writes a new value (see the note on same-value writes)
		switch op.Kind {
		case "put":
			e, err := m.Put(ctx, op.Key, op.Val)
			entry(op, e, err)
		case "insert":
			e, err := m.Insert(ctx, op.Key, op.Val)
			entry(op, e, err)
		case "update":
			e, err := m.Update(ctx, op.Key, op.Val)
			entry(op, e, err)
		case "update-ifv":
			e, err := m.Update(ctx, op.Key, op.Val, _map.IfVersion(primitive.Version(last[op.Key]+0)))
			entry(op, e, err)
		case "remove":
			e, err := m.Remove(ctx, op.Key)
			if err == nil {
				out = append(out, confRec{fmt.Sprintf("%s -> ok was %s", op, e.Value), []uint64{uint64(e.Version)}})
			} else {
				entry(op, nil, err)
			}
		case "remove-ifv":
			e, err := m.Remove(ctx, op.Key, _map.IfVersion(primitive.Version(last[op.Key])))
			if err == nil {
				out = append(out, confRec{fmt.Sprintf("%s -> ok was %s", op, e.Value), []uint64{uint64(e.Version)}})
			} else {
				entry(op, nil, err)
			}
		case "get":
			e, err := m.Get(ctx, op.Key)
			entry(op, e, err)
		case "list":
			st, err := m.List(ctx)
			if err != nil {
				out = append(out, confRec{"list -> " + errClass(err), nil})
				break
			}
			var items []string
			var vs []uint64
			type kv struct {
				k, v string
				ver  uint64
			}
			var l []kv
			for {
				e, err := st.Next()
				if err == io.EOF {
					break
				}
				if err != nil {
					break
				}
				l = append(l, kv{e.Key, e.Value, uint64(e.Version)})
			}
			sort.Slice(l, func(i, j int) bool { return l[i].k < l[j].k })
			for _, x := range l {
				items = append(items, x.k+"="+x.v)
				vs = append(vs, x.ver)
			}
			out = append(out, confRec{"list -> " + strings.Join(items, ","), vs})
		default: // transactions
			tx := m.Transaction(ctx)
			parts := strings.Split(strings.TrimPrefix(op.Kind, "tx-"), "-")
			for i, p := range parts {
				k := op.Key
				if i == 1 {
					k = op.Key2
				}
				switch p {
				case "insert":
					tx.Insert(k, fmt.Sprintf("t%s%d", k, pos))
				case "update":
					tx.Update(k, fmt.Sprintf("u%s%d", k, pos), _map.IfVersion(primitive.Version(last[k])))
				case "remove":
					tx.Remove(k, _map.IfVersion(primitive.Version(last[k])))
				}
			}
			_, err := tx.Commit()
			out = append(out, confRec{fmt.Sprintf("%s -> %s", op, errClass(err)), nil})
		}
		synctest.Wait()
	}
	synctest.Wait()
	out = append(out, evs...)
	return out
}

func confIMapOps() []confOp {
	var ops []confOp
	for _, k := range []string{"a", "b"} {
		for _, kind := range []string{"append", "update", "update-ifv", "get", "remove", "remove-ifv"} {
			ops = append(ops, confOp{Kind: kind, Key: k, Val: kind[:1] + k})
		}
	}
	ops = append(ops, confOp{Kind: "get-index-1"}, confOp{Kind: "get-index-2"}, confOp{Kind: "list"})
	return ops
}

func runIMapSequence(client primitive.Client, name string, seq []confOp) (out []confRec) {
	ctx := context.Background()
	m, err := indexedmap.NewBuilder[string, string](client, name).Tag("verif", "conformance").Codec(types.Scalar[string]()).Get(ctx)
	if err != nil {
		panic(err)
	}
	wctx, cancel := context.WithCancel(ctx)
	defer cancel()
	events, err := m.Events(wctx)
	if err != nil {
		panic(err)
	}
	var evs []confRec
	go func() {
		for {
			e, err := events.Next()
			if err != nil {
				return
			}
			switch x := e.(type) {
			case *indexedmap.Inserted[string, string]:
				evs = append(evs, confRec{fmt.Sprintf("event inserted %s=%s index %d", x.Entry.Key, x.Entry.Value, x.Entry.Index), []uint64{uint64(x.Entry.Version)}})
			case *indexedmap.Updated[string, string]:
				// the previous entry is not compared: the test runtime leaves it empty for indexed maps, simatomix
				// fills it in, and onos-config never reads it
				evs = append(evs, confRec{fmt.Sprintf("event updated %s=%s index %d", x.Entry.Key, x.Entry.Value, x.Entry.Index), []uint64{uint64(x.Entry.Version)}})
			case *indexedmap.Removed[string, string]:
				evs = append(evs, confRec{fmt.Sprintf("event removed %s index %d (was %s)", x.Entry.Key, x.Entry.Index, x.Entry.Value), []uint64{uint64(x.Entry.Version)}})
			}
		}
	}()
	synctest.Wait()
	last := map[string]uint64{}
	entry := func(op confOp, e *indexedmap.Entry[string, string], err error) {
		if err != nil || e == nil {
			out = append(out, confRec{fmt.Sprintf("%s -> %s", op, errClass(err)), nil})
			return
		}
		last[e.Key] = uint64(e.Version)
		out = append(out, confRec{fmt.Sprintf("%s -> ok %s=%s index %d", op, e.Key, e.Value, e.Index), []uint64{uint64(e.Version)}})
	}
	for pos, op := range seq {
		op.Val = fmt.Sprintf("%s%d", op.Val, pos)
		switch op.Kind {
		case "append":
			e, err := m.Append(ctx, op.Key, op.Val)
			entry(op, e, err)
		case "update":
			e, err := m.Update(ctx, op.Key, op.Val)
			entry(op, e, err)
		case "update-ifv":
			e, err := m.Update(ctx, op.Key, op.Val, indexedmap.IfVersion(primitive.Version(last[op.Key])))
			entry(op, e, err)
		case "get":
			e, err := m.Get(ctx, op.Key)
			entry(op, e, err)
		case "get-index-1":
			e, err := m.GetIndex(ctx, 1)
			entry(op, e, err)
		case "get-index-2":
			e, err := m.GetIndex(ctx, 2)
			entry(op, e, err)
		case "remove":
			e, err := m.Remove(ctx, op.Key)
			entry(op, e, err)
		case "remove-ifv":
			e, err := m.Remove(ctx, op.Key, indexedmap.IfVersion(primitive.Version(last[op.Key])))
			entry(op, e, err)
		case "list":
			st, err := m.List(ctx)
			if err != nil {
				out = append(out, confRec{"list -> " + errClass(err), nil})
				break
			}
			var items []string
			var vs []uint64
			for {
				e, err := st.Next()
				if err != nil {
					break
				}
				items = append(items, fmt.Sprintf("%d:%s=%s", e.Index, e.Key, e.Value))
				vs = append(vs, uint64(e.Version))
			}
			out = append(out, confRec{"list -> " + strings.Join(items, ","), vs}) // in index order on both runtimes
		}
		synctest.Wait()
	}
	synctest.Wait()
	out = append(out, evs...)
	return out
}

func confRender(recs []confRec) string {
	r := &ranker{}
	for _, x := range recs {
		for _, v := range x.versions {
			r.note(v)
		}
	}
	var lines []string
	for _, x := range recs {
		l := x.text
		for _, v := range x.versions {
			l += fmt.Sprintf(" v#%d", r.rank(v))
		}
		lines = append(lines, l)
	}
	return strings.Join(lines, "\n")
}

func checkConformance(rc *RunCtx) *Report {
	rep := newReport("other")
	real := atomixtest.NewClient()
	sim := newSimAtomix(nil)
	n, mism := 0, 0
	distinct := hashSet{}
	maxLen := 2
	if rc.Thorough() {
		maxLen = 3
	}
	var rec func(kind string, ops []confOp, seq []confOp)
	rec = func(kind string, ops []confOp, seq []confOp) {
		if len(seq) > 0 {
			n++
			name := fmt.Sprintf("conf-%s-%d", kind, n)
			var a, b string
			if kind == "map" {
				a, b = confRender(runMapSequence(real, name, seq)), confRender(runMapSequence(sim, name, seq))
			} else {
				a, b = confRender(runIMapSequence(real, name, seq)), confRender(runIMapSequence(sim, name, seq))
			}
			distinct.Add(a)
			if a != b {
				mism++
				rep.Violate("simatomix-differs-from-atomix/"+kind, fmt.Sprintf("sequence %v:\n--- go-sdk test runtime\n%s\n--- simatomix\n%s", seq, a, b), map[string]interface{}{"kind": "conformance", "sequence": fmt.Sprint(seq)})
			}
		}
		if len(seq) == maxLen {
			return
		}
		for _, o := range ops {
			rec(kind, ops, append(append([]confOp{}, seq...), o))
		}
	}
	rec("map", confMapOps(), nil)
	rec("imap", confIMapOps(), nil)
	rep.Coverage["explanation"] = fmt.Sprintf("%d operation sequences of length <= %d executed on the go-sdk test runtime and on simatomix through the same go-sdk primitives; %d differ", n, maxLen, mism)
	rep.Coverage["evaluations"] = n
	rep.Coverage["distinct_nontrivial"] = len(distinct)
	return rep
}

func init() { registerBubble("conformance", checkConformance) }

// ValidateOnRealAtomix re-executes up to k traces of the explored graph (the deepest states whose traces contain no
// crash and no interleaving: both need simatomix's fuse and gates) on a world whose stores run on the go-sdk test
// runtime, and compares the canonical world content after every move with the state the exploration recorded.
// It returns the number of traces validated and a description of the first difference ("" if none).
func (x *Explorer) ValidateOnRealAtomix(k int) (int, string) {
	var cands []*E1State
	for _, s := range x.visited {
		ok := s.parent != nil
		for n := s; n.parent != nil; n = n.parent {
			if n.via.Kind == "crash" || n.via.Kind == "restart" || n.via.Kind == "interleave" || n.via.Kind == "hold" || n.via.Kind == "release" || len(n.via.Map) > 0 {
				ok = false
				break
			}
		}
		if ok {
			cands = append(cands, s)
		}
	}
	sort.Slice(cands, func(i, j int) bool {
		if cands[i].depth != cands[j].depth {
			return cands[i].depth > cands[j].depth
		}
		return cands[i].key < cands[j].key
	})
	validated := 0
	for _, s := range cands {
		if validated >= k {
			break
		}
		// the states along the path, root first
		var path []*E1State
		for n := s; n != nil; n = n.parent {
			path = append([]*E1State{n}, path...)
		}
		cfg := x.Sc.Cfg
		cfg.Backend = atomixtest.NewClient()
		w := NewWorld(cfg)
		if x.Sc.Init != nil {
			x.Sc.Init(w)
		}
		q := append(w.TakeTokens(), w.Settle()...)
		_, q = w.Drain(q, drainLimit, nil)
		for _, p := range x.Sc.Prefix {
			call := p(w)
			q = append(q, w.Settle()...)
			_, q = w.Drain(q, drainLimit, nil)
			if !call.Done {
				call.Cancel()
				w.Settle()
			}
		}
		if got := w.Canon(); got != path[0].storeCanon {
			return validated, fmt.Sprintf("scenario %q: the initial state differs on the real runtime:\n--- real\n%s\n--- simatomix\n%s", x.Sc.Name, got, path[0].storeCanon)
		}
		nextReq := 0
		for i, st := range path[1:] {
			t := st.via
			switch t.Kind {
			case "step":
				w.Step(t.Ctrl, t.ID)
			case "client":
				r := x.Sc.Requests[nextReq]
				nextReq++
				var call *Call
				if r.Set != nil {
					call = w.GoSet(context.Background(), r.Set)
				} else {
					call = r.Call(w)
				}
				w.Settle()
				if !call.Done {
					call.Cancel()
					w.Settle()
				}
			case "fault":
				for _, f := range x.Sc.Faults {
					if f.Name == t.Fault {
						f.Apply(w)
						w.Settle()
					}
				}
			}
			if got := w.Canon(); got != st.storeCanon {
				return validated, fmt.Sprintf("scenario %q: after move %d (%s) of %v the world differs on the real runtime:\n--- real\n%s\n--- simatomix\n%s", x.Sc.Name, i, t.String(), s.TraceStrings(), got, st.storeCanon)
			}
		}
		validated++
		x.Rep.Sample(12, map[string]interface{}{"scenario": x.Sc.Name, "trace_validated_on_the_real_atomix_runtime": s.TraceStrings(), "moves": len(path) - 1})
	}
	return validated, ""
}
