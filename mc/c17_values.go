package mc

import (
	"bytes"
	"encoding/base64"
	"encoding/json"
	"fmt"
	"math"
	"math/big"
	"strconv"
	"strings"

	adminapi "github.com/onosproject/onos-api/go/onos/config/admin"
	configv2 "github.com/onosproject/onos-api/go/onos/config/v2"
	configv3 "github.com/onosproject/onos-api/go/onos/config/v3"
	treev2 "github.com/onosproject/onos-config/pkg/utils/v2/tree"
	valuesv2 "github.com/onosproject/onos-config/pkg/utils/v2/values"
	treev3 "github.com/onosproject/onos-config/pkg/utils/v3/tree"
	valuesv3 "github.com/onosproject/onos-config/pkg/utils/v3/values"
	"github.com/openconfig/gnmi/proto/gnmi"
)

// C17 (pure part). A case is a gNMI TypedValue plus the width / precision the model declares for the leaf.

type c17Case struct {
	Kind  string   `json:"kind"` // int uint string ascii bool bytes decimal float, or list-<kind>
	Width int      `json:"width,omitempty"`
	Elems []string `json:"elems"` // textual scalar(s); one for scalars, 1..3 for leaf-lists
	Prec  uint32   `json:"prec,omitempty"`
	// ModelPrec, when set (1 + fraction-digits), is the fraction-digits the model declares for the leaf, different
	// from the precision the client encoded: the value must make the journey unchanged all the same
	ModelPrec uint32 `json:"model_prec,omitempty"`
}

func (c c17Case) isList() bool { return strings.HasPrefix(c.Kind, "list-") }
func (c c17Case) base() string { return strings.TrimPrefix(c.Kind, "list-") }

func c17Scalar(kind, s string, prec uint32) *gnmi.TypedValue {
	switch kind {
	case "int":
		v, _ := strconv.ParseInt(s, 10, 64)
		return &gnmi.TypedValue{Value: &gnmi.TypedValue_IntVal{IntVal: v}}
	case "uint":
		v, _ := strconv.ParseUint(s, 10, 64)
		return &gnmi.TypedValue{Value: &gnmi.TypedValue_UintVal{UintVal: v}}
	case "string":
		return &gnmi.TypedValue{Value: &gnmi.TypedValue_StringVal{StringVal: s}}
	case "ascii":
		return &gnmi.TypedValue{Value: &gnmi.TypedValue_AsciiVal{AsciiVal: s}}
	case "bool":
		return &gnmi.TypedValue{Value: &gnmi.TypedValue_BoolVal{BoolVal: s == "true"}}
	case "bytes":
		b, _ := base64.StdEncoding.DecodeString(s)
		return &gnmi.TypedValue{Value: &gnmi.TypedValue_BytesVal{BytesVal: b}}
	case "decimal":
		v, _ := strconv.ParseInt(s, 10, 64)
		return &gnmi.TypedValue{Value: &gnmi.TypedValue_DecimalVal{DecimalVal: &gnmi.Decimal64{Digits: v, Precision: prec}}}
	case "float":
		bits, _ := strconv.ParseUint(s, 16, 32)
		return &gnmi.TypedValue{Value: &gnmi.TypedValue_FloatVal{FloatVal: math.Float32frombits(uint32(bits))}}
	}
	panic(kind)
}

func (c c17Case) gnmi() *gnmi.TypedValue {
	if !c.isList() {
		return c17Scalar(c.Kind, c.Elems[0], c.Prec)
	}
	arr := &gnmi.ScalarArray{}
	for _, e := range c.Elems {
		arr.Element = append(arr.Element, c17Scalar(c.base(), e, c.Prec))
	}
	return &gnmi.TypedValue{Value: &gnmi.TypedValue_LeaflistVal{LeaflistVal: arr}}
}

// c17Norm renders a gNMI value in a canonical text that identifies kind (ascii==string) and content.
func c17Norm(v *gnmi.TypedValue) string {
	switch x := v.GetValue().(type) {
	case *gnmi.TypedValue_IntVal:
		return fmt.Sprintf("int:%d", x.IntVal)
	case *gnmi.TypedValue_UintVal:
		return fmt.Sprintf("uint:%d", x.UintVal)
	case *gnmi.TypedValue_StringVal:
		return fmt.Sprintf("string:%q", x.StringVal)
	case *gnmi.TypedValue_AsciiVal:
		return fmt.Sprintf("string:%q", x.AsciiVal)
	case *gnmi.TypedValue_BoolVal:
		return fmt.Sprintf("bool:%v", x.BoolVal)
	case *gnmi.TypedValue_BytesVal:
		return fmt.Sprintf("bytes:%x", x.BytesVal)
	case *gnmi.TypedValue_DecimalVal:
		return fmt.Sprintf("decimal:%d/%d", x.DecimalVal.GetDigits(), x.DecimalVal.GetPrecision())
	case *gnmi.TypedValue_FloatVal:
		return fmt.Sprintf("float:%08x", math.Float32bits(x.FloatVal))
	case *gnmi.TypedValue_LeaflistVal:
		var parts []string
		for _, e := range x.LeaflistVal.GetElement() {
			parts = append(parts, c17Norm(e))
		}
		return "list[" + strings.Join(parts, ",") + "]"
	case nil:
		return "nil"
	}
	return fmt.Sprintf("other:%T", v.GetValue())
}

func c17IntBounds(width int) (min, max int64) {
	if width == 64 {
		return math.MinInt64, math.MaxInt64
	}
	return -(int64(1) << (width - 1)), (int64(1) << (width - 1)) - 1
}

func c17Cases(thorough bool) []c17Case {
	var out []c17Case
	widths := []int{8, 16, 32, 64}
	intVals := func(w int) []string {
		min, max := c17IntBounds(w)
		vs := []int64{min, -1, 0, 1, max}
		if w > 8 {
			lmin, lmax := c17IntBounds(w / 2)
			vs = append(vs, lmax+1, lmin-1)
		}
		var s []string
		for _, v := range vs {
			s = append(s, strconv.FormatInt(v, 10))
		}
		return s
	}
	uintVals := func(w int) []string {
		var max uint64 = math.MaxUint64
		if w < 64 {
			max = (uint64(1) << w) - 1
		}
		vs := []uint64{0, 1, max}
		if w > 8 {
			vs = append(vs, uint64(1)<<(w/2), (uint64(1) << (w - 1))) // first value beyond the next smaller width; sign-bit value
		}
		var s []string
		for _, v := range vs {
			s = append(s, strconv.FormatUint(v, 10))
		}
		return s
	}
	lists := func(kind string, w int, prec uint32, vals []string) {
		max := 2
		if thorough {
			max = 3
		}
		var rec func(cur []string)
		rec = func(cur []string) {
			if len(cur) > 0 {
				out = append(out, c17Case{Kind: "list-" + kind, Width: w, Prec: prec, Elems: append([]string{}, cur...)})
			}
			if len(cur) == max {
				return
			}
			for _, v := range vals {
				rec(append(cur, v))
			}
		}
		rec(nil)
	}
	for _, w := range widths {
		for _, v := range intVals(w) {
			out = append(out, c17Case{Kind: "int", Width: w, Elems: []string{v}})
		}
		for _, v := range uintVals(w) {
			out = append(out, c17Case{Kind: "uint", Width: w, Elems: []string{v}})
		}
		iv, uv := intVals(w), uintVals(w)
		lists("int", w, 0, []string{iv[0], "0", iv[4]})
		lists("uint", w, 0, []string{"0", uv[2], "1"})
	}
	strs := []string{"", "a", "é✓ b"}
	for _, s := range strs {
		out = append(out, c17Case{Kind: "string", Elems: []string{s}}, c17Case{Kind: "ascii", Elems: []string{s}})
	}
	lists("string", 0, 0, strs)
	for _, b := range []string{"true", "false"} {
		out = append(out, c17Case{Kind: "bool", Elems: []string{b}})
	}
	lists("bool", 0, 0, []string{"false", "true"})
	byteVals := []string{"", base64.StdEncoding.EncodeToString([]byte{0}), base64.StdEncoding.EncodeToString([]byte{0xff, 0x00, 0x7f})}
	for _, b := range byteVals {
		out = append(out, c17Case{Kind: "bytes", Elems: []string{b}})
	}
	lists("bytes", 0, 0, byteVals)
	decDigits := []string{"0", "1", "-1", "5", "-5", "123456", "-123456", "100", strconv.FormatInt(math.MaxInt64, 10), strconv.FormatInt(math.MinInt64, 10)}
	for _, p := range []uint32{0, 1, 2, 18} {
		for _, d := range decDigits {
			out = append(out, c17Case{Kind: "decimal", Prec: p, Elems: []string{d}})
			for _, mp := range []uint32{0, 2} {
				if mp != p && (d == "6" || d == "-5" || d == "123456") {
					out = append(out, c17Case{Kind: "decimal", Prec: p, Elems: []string{d}, ModelPrec: mp + 1})
				}
			}
		}
		lists("decimal", 0, p, []string{"0", "-5", "123456"})
	}
	floatBits := []uint32{0, 0x80000000, 1, math.Float32bits(math.MaxFloat32), math.Float32bits(float32(1.0) / 3), math.Float32bits(-1.5), math.Float32bits(16777217)}
	var fv []string
	for _, b := range floatBits {
		fv = append(fv, fmt.Sprintf("%08x", b))
		out = append(out, c17Case{Kind: "float", Elems: []string{fmt.Sprintf("%08x", b)}})
	}
	lists("float", 0, 0, []string{fv[0], fv[4], fv[5]})
	return out
}

// c17ExpectJSON checks that js (decoded with UseNumber) is the RFC 7951 rendering of scalar (kind, s).
// It returns "" if fine, otherwise a (class, detail) pair.
func c17ExpectJSON(kind string, width int, prec uint32, s string, js interface{}) (string, string) {
	switch kind {
	case "int", "uint":
		if width > 32 {
			str, ok := js.(string)
			if !ok {
				return "json/" + kind + "64-not-a-string", fmt.Sprintf("%d-bit %s %s rendered as %T %v, RFC 7951 wants a string", width, kind, s, js, js)
			}
			if str != s {
				return "json/" + kind + "-digits", fmt.Sprintf("%s %s rendered as %q", kind, s, str)
			}
			return "", ""
		}
		n, ok := js.(json.Number)
		if !ok {
			return "json/" + kind + "-not-a-number", fmt.Sprintf("%d-bit %s %s rendered as %T %v, RFC 7951 wants a number", width, kind, s, js, js)
		}
		if n.String() != s {
			return "json/" + kind + "-digits", fmt.Sprintf("%s %s rendered as %s", kind, s, n)
		}
	case "string", "ascii":
		if str, ok := js.(string); !ok || str != s {
			return "json/string", fmt.Sprintf("string %q rendered as %T %v", s, js, js)
		}
	case "bool":
		if b, ok := js.(bool); !ok || b != (s == "true") {
			return "json/bool", fmt.Sprintf("bool %s rendered as %T %v", s, js, js)
		}
	case "bytes":
		if str, ok := js.(string); !ok || str != s {
			return "json/bytes", fmt.Sprintf("bytes %s rendered as %T %v", s, js, js)
		}
	case "decimal":
		str, ok := js.(string)
		if !ok {
			return "json/decimal-not-a-string", fmt.Sprintf("decimal64 %s/%d rendered as %T %v, RFC 7951 wants a string", s, prec, js, js)
		}
		want := new(big.Rat)
		d, _ := new(big.Int).SetString(s, 10)
		want.SetFrac(d, new(big.Int).Exp(big.NewInt(10), big.NewInt(int64(prec)), nil))
		got, ok := new(big.Rat).SetString(str)
		if !ok || got.Cmp(want) != 0 {
			cl := "json/decimal-digits"
			if ok && new(big.Rat).Neg(got).Cmp(want) == 0 && want.Sign() < 0 && new(big.Rat).Abs(want).Cmp(big.NewRat(1, 1)) < 0 {
				cl = "json/decimal-negative-fraction-sign-lost" // -0.x rendered as 0.x
			}
			return cl, fmt.Sprintf("decimal64 digits=%s precision=%d rendered as %q", s, prec, str)
		}
	case "float":
		bits, _ := strconv.ParseUint(s, 16, 32)
		want := math.Float32frombits(uint32(bits))
		var txt string
		switch x := js.(type) {
		case string:
			txt = x
		case json.Number:
			txt = x.String()
		default:
			return "json/float-type", fmt.Sprintf("float %v rendered as %T %v", want, js, js)
		}
		got, err := strconv.ParseFloat(txt, 32)
		if err != nil || float32(got) != want {
			return "json/float-digits", fmt.Sprintf("float %v (bits %s) rendered as %s, which reads back as %v", want, s, txt, float32(got))
		}
	}
	return "", ""
}

type c17Impl struct {
	name string
	// journey converts the gNMI value to the stored form, back to gNMI, and renders the stored form as the
	// RFC 7951 JSON document for the single leaf /x.
	journey func(v *gnmi.TypedValue, width int, prec uint32) (back *gnmi.TypedValue, doc []byte, err error)
}

func c17TypeOpts(c c17Case) []uint64 {
	switch c.base() {
	case "int", "uint":
		return []uint64{uint64(c.Width)}
	case "decimal":
		return []uint64{uint64(c.Prec)}
	}
	return nil
}

var c17Impls = []c17Impl{
	{"v2", func(v *gnmi.TypedValue, width int, prec uint32) (*gnmi.TypedValue, []byte, error) {
		var opts []uint64
		if width > 0 {
			opts = []uint64{uint64(width)}
		} else if prec > 0 {
			opts = []uint64{uint64(prec)}
		}
		native, err := valuesv2.GnmiTypedValueToNativeType(v, &adminapi.ReadWritePath{TypeOpts: opts})
		if err != nil {
			return nil, nil, err
		}
		// the stored form: every store keeps values protobuf-encoded
		if b, err := native.Marshal(); err == nil {
			var stored configv2.TypedValue
			if err := stored.Unmarshal(b); err != nil {
				return nil, nil, err
			}
			native = &stored
		}
		back, err := valuesv2.NativeTypeToGnmiTypedValue(native)
		if err != nil {
			return nil, nil, err
		}
		doc, err := treev2.BuildTree([]*configv2.PathValue{{Path: "/x", Value: *native}}, true)
		return back, doc, err
	}},
	{"v3", func(v *gnmi.TypedValue, width int, prec uint32) (*gnmi.TypedValue, []byte, error) {
		var opts []uint64
		if width > 0 {
			opts = []uint64{uint64(width)}
		} else if prec > 0 {
			opts = []uint64{uint64(prec)}
		}
		native, err := valuesv3.GnmiTypedValueToNativeType(v, &configv3.ReadWritePath{TypeOpts: opts})
		if err != nil {
			return nil, nil, err
		}
		if b, err := native.Marshal(); err == nil {
			var stored configv3.TypedValue
			if err := stored.Unmarshal(b); err != nil {
				return nil, nil, err
			}
			native = &stored
		}
		back, err := valuesv3.NativeTypeToGnmiTypedValue(native)
		if err != nil {
			return nil, nil, err
		}
		doc, err := treev3.BuildTree([]configv3.PathValue{{Path: "/x", Value: *native}}, true)
		return back, doc, err
	}},
}

func c17CheckOne(rep *Report, impl c17Impl, c c17Case) (nontrivialKey string) {
	replay := map[string]interface{}{"kind": "c17-value", "case": c, "impl": impl.name}
	defer func() {
		if r := recover(); r != nil {
			rep.Violate(impl.name+"/panic/"+c.Kind, fmt.Sprintf("panic %v for %+v", r, c), replay)
		}
	}()
	v := c.gnmi()
	modelPrec := c.Prec
	if c.ModelPrec > 0 {
		modelPrec = c.ModelPrec - 1
	}
	back, doc, err := impl.journey(v, c.Width, modelPrec)
	if err != nil {
		rep.Violate(impl.name+"/refused/"+c.Kind, fmt.Sprintf("value %s (width %d) is refused: %v", c17Norm(v), c.Width, err), replay)
		return ""
	}
	if c17Norm(back) != c17Norm(v) {
		cl := impl.name + "/roundtrip/" + c.Kind
		if c.base() == "int" || c.base() == "uint" {
			cl += fmt.Sprintf("/w%d", c.Width)
		}
		if c.Kind == "list-bytes" {
			for _, e := range c.Elems {
				if e == "" {
					cl += "-with-empty-element"
					break
				}
			}
		}
		rep.Violate(cl, fmt.Sprintf("%s (width %d, precision %d) comes back as %s", c17Norm(v), c.Width, c.Prec, c17Norm(back)), replay)
	}
	dec := json.NewDecoder(bytes.NewReader(doc))
	dec.UseNumber()
	var m map[string]interface{}
	if err := dec.Decode(&m); err != nil {
		rep.Violate(impl.name+"/json/unparsable", fmt.Sprintf("document %s for %s: %v", doc, c17Norm(v), err), replay)
		return c17Norm(v)
	}
	js, ok := m["x"]
	if !ok {
		rep.Violate(impl.name+"/json/missing/"+c.Kind, fmt.Sprintf("leaf missing from document %s for %s", oneLine(string(doc)), c17Norm(v)), replay)
		return c17Norm(v)
	}
	if !c.isList() {
		if cl, what := c17ExpectJSON(c.Kind, c.Width, c.Prec, c.Elems[0], js); cl != "" {
			rep.Violate(impl.name+"/"+cl, what, replay)
		}
	} else {
		arr, ok := js.([]interface{})
		if !ok {
			// encoding/json renders [][]byte / []byte specially; a bytes leaf-list must still be an array
			rep.Violate(impl.name+"/json/list-not-array/"+c.base(), fmt.Sprintf("leaf-list %s rendered as %T %v", c17Norm(v), js, js), replay)
		} else if len(arr) != len(c.Elems) {
			cl := impl.name + "/json/list-length/" + c.base()
			if c.Kind == "list-bytes" {
				for _, e := range c.Elems {
					if e == "" {
						cl += "-with-empty-element"
						break
					}
				}
			}
			rep.Violate(cl, fmt.Sprintf("leaf-list %s rendered with %d elements: %v", c17Norm(v), len(arr), arr), replay)
		} else {
			for i, e := range c.Elems {
				if cl, what := c17ExpectJSON(c.base(), c.Width, c.Prec, e, arr[i]); cl != "" {
					rep.Violate(impl.name+"/"+strings.Replace(cl, "json/", "json/list-", 1), what, replay)
					break
				}
			}
		}
	}
	return c17Norm(v) + fmt.Sprintf("/w%d", c.Width)
}

func checkC17(rc *RunCtx) *Report {
	rep := newReport("exploration")
	if rc.Replay != "" {
		var c c17Case
		var implName string
		var journey string
		if err := loadReplay(rc.Replay, "journey", &journey); err == nil && journey != "" {
			c17Journeys(rc, rep)
			rep.Coverage["evaluations"] = 1
			return rep
		}
		if err := loadReplay(rc.Replay, "case", &c); err != nil {
			rep.HarnessErr = err.Error()
			return rep
		}
		_ = loadReplay(rc.Replay, "impl", &implName)
		for _, impl := range c17Impls {
			if impl.name == implName || implName == "" {
				c17CheckOne(rep, impl, c)
			}
		}
		rep.Coverage["evaluations"] = 1
		return rep
	}
	cases := c17Cases(rc.Thorough())
	distinct := map[string]bool{}
	evals := 0
	for _, impl := range c17Impls {
		for _, c := range cases {
			evals++
			if k := c17CheckOne(rep, impl, c); k != "" {
				distinct[impl.name+k] = true
			}
		}
	}
	rep.Sample(4, cases[3])
	rep.Sample(4, cases[len(cases)/2])
	rep.Sample(4, cases[len(cases)-1])
	rep.Coverage["evaluations"] = evals
	rep.Coverage["distinct_nontrivial"] = len(distinct)
	rep.Coverage["rule"] = "every gNMI scalar kind (int/uint at widths 8,16,32,64 with min,-1,0,1,max and the values just outside the next smaller width; string/ascii incl. empty and non-ASCII; bool; bytes incl. empty; decimal64 digits extremes x precision 0,1,2,18; float32 incl. -0, denormal min, max, 1/3) and every homogeneous leaf-list of 1..2 (thorough 1..3) of them, through GnmiTypedValueToNativeType -> NativeTypeToGnmiTypedValue and BuildTree(rfc7951) for v2 and v3; non-trivial = distinct (value,width) that was accepted and rendered"
	rep.Assumptions = append(rep.Assumptions, "the RFC 7951 expectation: 64-bit integers and decimal64 as strings, narrower integers as numbers, bytes base64; float32 (not a YANG type) must read back as the same float32")
	c17Journeys(rc, rep)
	return rep
}

func init() { registerBubble("C17", checkC17) }
