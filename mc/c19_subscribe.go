package mc

import (
	"context"
	"fmt"
	"io"
	"sort"
	"strings"
	"sync"

	topoapi "github.com/onosproject/onos-api/go/onos/topo"
	sb "github.com/onosproject/onos-config/pkg/southbound/gnmi"
	"github.com/onosproject/onos-lib-go/pkg/errors"
	baseClient "github.com/openconfig/gnmi/client"
	"github.com/openconfig/gnmi/proto/gnmi"
	"google.golang.org/grpc/metadata"
	gproto "google.golang.org/protobuf/proto"
)

// C19 – subscriptions reach exactly the targets they name (E3h with fake per-target clients and a fake stream).

// fakeSubClient records the queries it receives and can emit responses through the query's handler.
type fakeSubClient struct {
	sb.Client
	target  string
	mu      sync.Mutex
	queries []baseClient.Query
	polls   int
	fail    bool
}

func (c *fakeSubClient) Subscribe(ctx context.Context, q baseClient.Query) error {
	c.mu.Lock()
	defer c.mu.Unlock()
	if c.fail {
		return errors.NewUnavailable("target %s unavailable", c.target)
	}
	c.queries = append(c.queries, q)
	return nil
}

func (c *fakeSubClient) Poll() error {
	c.mu.Lock()
	defer c.mu.Unlock()
	if c.fail {
		return errors.NewUnavailable("target %s unavailable", c.target)
	}
	c.polls++
	return nil
}

func (c *fakeSubClient) Close() error { return nil }

type fakeSubConns struct {
	clients map[string]*fakeSubClient
}

func (m *fakeSubConns) Get(ctx context.Context, connID sb.ConnID) (sb.Conn, bool) { return nil, false }
func (m *fakeSubConns) GetByTarget(ctx context.Context, targetID topoapi.ID) (sb.Client, error) {
	if c, ok := m.clients[string(targetID)]; ok {
		return c, nil
	}
	return nil, errors.NewNotFound("gnmi client for target %s not found", targetID)
}
func (m *fakeSubConns) Connect(ctx context.Context, target *topoapi.Object) error { return nil }
func (m *fakeSubConns) Disconnect(ctx context.Context, targetID topoapi.ID) error { return nil }
func (m *fakeSubConns) Watch(ctx context.Context, ch chan<- sb.Conn) error        { return nil }

// fakeSubStream feeds a fixed message sequence to the handler and records what it sends.
type fakeSubStream struct {
	ctx  context.Context
	in   []*gnmi.SubscribeRequest
	pos  int
	sent []*gnmi.SubscribeResponse
	// afterRecv is called after message i was handed to the handler and before message i+1 is (the handler has
	// processed message i by then, the loop is sequential)
	afterRecv func(i int)
}

func (s *fakeSubStream) Send(r *gnmi.SubscribeResponse) error { s.sent = append(s.sent, r); return nil }
func (s *fakeSubStream) Recv() (*gnmi.SubscribeRequest, error) {
	if s.pos > 0 && s.afterRecv != nil {
		s.afterRecv(s.pos - 1)
	}
	if s.pos >= len(s.in) {
		return nil, io.EOF
	}
	m := s.in[s.pos]
	s.pos++
	return m, nil
}
func (s *fakeSubStream) Context() context.Context     { return s.ctx }
func (s *fakeSubStream) SetHeader(metadata.MD) error  { return nil }
func (s *fakeSubStream) SendHeader(metadata.MD) error { return nil }
func (s *fakeSubStream) SetTrailer(metadata.MD)       {}
func (s *fakeSubStream) SendMsg(m interface{}) error  { return nil }
func (s *fakeSubStream) RecvMsg(m interface{}) error  { return nil }

type c19Entry struct {
	Target string `json:"target"` // path target ("" none)
	Path   string `json:"path"`
}

type c19Msg struct {
	Kind       string     `json:"kind"`   // subscribe | poll | empty
	PrefixKind string     `json:"prefix"` // absent | empty | target:A | elems
	Mode       int        `json:"mode"`
	Entries    []c19Entry `json:"entries,omitempty"`
}

func (m c19Msg) build() *gnmi.SubscribeRequest {
	switch m.Kind {
	case "poll":
		return &gnmi.SubscribeRequest{Request: &gnmi.SubscribeRequest_Poll{Poll: &gnmi.Poll{}}}
	case "empty":
		return &gnmi.SubscribeRequest{}
	}
	sl := &gnmi.SubscriptionList{Mode: gnmi.SubscriptionList_Mode(m.Mode), Encoding: gnmi.Encoding_PROTO, UpdatesOnly: true, Qos: &gnmi.QOSMarking{Marking: 7}}
	switch {
	case m.PrefixKind == "empty":
		sl.Prefix = &gnmi.Path{}
	case strings.HasPrefix(m.PrefixKind, "target:"):
		sl.Prefix = &gnmi.Path{Target: strings.TrimPrefix(m.PrefixKind, "target:")}
	case m.PrefixKind == "elems":
		sl.Prefix = &gnmi.Path{Elem: mustPath("/cont").Elem}
	}
	for i, e := range m.Entries {
		p := mustPath(e.Path)
		p.Target = e.Target
		sl.Subscription = append(sl.Subscription, &gnmi.Subscription{Path: p, Mode: gnmi.SubscriptionMode(i % 3), SampleInterval: uint64(1000 + i)})
	}
	return &gnmi.SubscribeRequest{Request: &gnmi.SubscribeRequest_Subscribe{Subscribe: sl}}
}

// c19Expect: for the first subscribe message: refused? else target -> the entries it must get (as text).
func (m c19Msg) expect() (refused bool, per map[string][]string) {
	per = map[string][]string{}
	if strings.HasPrefix(m.PrefixKind, "target:") {
		t := strings.TrimPrefix(m.PrefixKind, "target:")
		for i, e := range m.Entries {
			per[t] = append(per[t], c19EntryText(e, i))
		}
		if len(m.Entries) == 0 {
			per[t] = []string{}
		}
		return false, per
	}
	for i, e := range m.Entries {
		if e.Target != "" {
			per[e.Target] = append(per[e.Target], c19EntryText(e, i))
		}
	}
	if len(per) == 0 {
		return true, nil
	}
	return false, per
}

func c19EntryText(e c19Entry, i int) string {
	return fmt.Sprintf("%s@%s mode=%d interval=%d", e.Path, e.Target, i%3, 1000+i)
}

func c19SubText(s *gnmi.Subscription) string {
	return fmt.Sprintf("%s@%s mode=%d interval=%d", strPathAbs(s.Path), s.Path.GetTarget(), int(s.Mode), s.SampleInterval)
}

func c19Sequences(maxLen int, thorough bool) [][]c19Msg {
	var subs []c19Msg
	entrySets := [][]c19Entry{
		{},
		{{"A", "/cont/leafA"}},
		{{"", "/cont/leafA"}},
		{{"A", "/cont/leafA"}, {"B", "/cont/leafA2"}},
		{{"A", "/cont/leafA"}, {"B", "/cont/leafA2"}, {"A", "/cont/sub"}},
		{{"A", "/cont/leafA"}, {"", "/cont/leafA2"}, {"B", "/top"}},
		{{"B", "/cont/leafA"}, {"B", "/cont/leafA2"}, {"A", "/top"}},
	}
	prefixes := []string{"absent", "empty", "target:A", "elems"}
	modes := []int{0, 1, 2}
	for _, es := range entrySets {
		for _, p := range prefixes {
			for _, mo := range modes {
				if !thorough && mo != 2 && len(es) > 2 {
					continue
				}
				subs = append(subs, c19Msg{Kind: "subscribe", PrefixKind: p, Mode: mo, Entries: es})
			}
		}
	}
	second := c19Msg{Kind: "subscribe", PrefixKind: "target:B", Mode: 0, Entries: []c19Entry{{"B", "/top"}}}
	poll := c19Msg{Kind: "poll"}
	empty := c19Msg{Kind: "empty"}
	var seqs [][]c19Msg
	seqs = append(seqs, []c19Msg{poll}, []c19Msg{empty}, []c19Msg{poll, poll})
	for _, s := range subs {
		seqs = append(seqs, []c19Msg{s})
		for _, m2 := range []c19Msg{second, poll, empty} {
			seqs = append(seqs, []c19Msg{s, m2})
			if maxLen >= 3 {
				for _, m3 := range []c19Msg{second, poll, empty} {
					seqs = append(seqs, []c19Msg{s, m2, m3})
				}
			}
		}
	}
	return seqs
}

func checkC19(rc *RunCtx) *Report {
	rep := newReport("exploration")
	hw := NewHistWorld(WorldConfig{Targets: []string{"A", "B"}}, false)
	w := hw.W
	var seqs [][]c19Msg
	if rc.Replay != "" {
		var s []c19Msg
		if err := loadReplay(rc.Replay, "sequence", &s); err != nil {
			rep.HarnessErr = err.Error()
			return rep
		}
		seqs = [][]c19Msg{s}
	} else {
		seqs = c19Sequences(3, rc.Thorough())
	}
	evals := 0
	distinct := map[string]bool{}
	for _, failing := range []string{"", "B"} {
		for si, seq := range seqs {
			conns := &fakeSubConns{clients: map[string]*fakeSubClient{"A": {target: "A"}, "B": {target: "B"}, "C": {target: "C"}}}
			if failing != "" {
				if len(seq) < 2 || seq[1].Kind != "poll" {
					continue
				}
			}
			srv := newGnmiServerWithConns(w, conns)
			stream := &fakeSubStream{ctx: context.Background()}
			var wire []*gnmi.SubscribeRequest
			for _, m := range seq {
				// only wire-decodable messages
				b, err := gproto.Marshal(m.build())
				if err != nil {
					panic(err)
				}
				d := &gnmi.SubscribeRequest{}
				if err := gproto.Unmarshal(b, d); err != nil {
					panic(err)
				}
				wire = append(wire, d)
			}
			stream.in = wire
			// after the first message was processed: every target answers through its query handler
			relayed := 0
			var relayWant []string
			pollsAt := map[int]map[string]int{}
			stream.afterRecv = func(i int) {
				if i == 0 {
					if failing != "" {
						conns.clients[failing].mu.Lock()
						conns.clients[failing].fail = true
						conns.clients[failing].mu.Unlock()
					}
					for _, t := range []string{"A", "B", "C"} {
						c := conns.clients[t]
						for qi, q := range c.queries {
							if q.ProtoHandler == nil {
								continue
							}
							for k := 0; k < 2; k++ {
								var resp *gnmi.SubscribeResponse
								if k == 0 {
									resp = &gnmi.SubscribeResponse{Response: &gnmi.SubscribeResponse_Update{Update: &gnmi.Notification{Timestamp: int64(100*qi + k), Prefix: &gnmi.Path{Target: t},
										Delete: []*gnmi.Path{mustPath("/cont/leafA")}}}}
								} else {
									resp = &gnmi.SubscribeResponse{Response: &gnmi.SubscribeResponse_SyncResponse{SyncResponse: true}}
								}
								relayWant = append(relayWant, resp.String())
								_ = q.ProtoHandler(resp)
								relayed++
							}
						}
					}
				}
				snap := map[string]int{}
				for t, c := range conns.clients {
					snap[t] = c.polls
				}
				pollsAt[i] = snap
			}
			var err error
			var pan string
			func() {
				defer func() {
					if r := recover(); r != nil {
						pan = fmt.Sprint(r)
					}
				}()
				err = srv.Subscribe(stream)
			}()
			stream.afterRecv = nil
			evals++
			replay := map[string]interface{}{"kind": "c19", "sequence": seq, "failing": failing}
			desc := fmt.Sprintf("sequence %d %s (failing target %q)", si, c19SeqText(seq), failing)
			if pan != "" {
				// C12's business; keep it out of C19's classes unless nothing else is checked
				rep.Violate("panic/"+c19PanicClass(seq), fmt.Sprintf("%s: the handler panics: %s", desc, pan), replay)
				continue
			}
			first := seq[0]
			switch first.Kind {
			case "poll":
				if err == nil {
					rep.Violate("poll-before-subscribe-accepted", desc+": a poll before any subscription is not refused", replay)
				}
				distinct["poll-first"] = true
				continue
			case "empty":
				if err == nil {
					rep.Violate("empty-message-accepted", desc+": a message that is neither subscribe nor poll is not refused", replay)
				}
				distinct["empty-first"] = true
				continue
			}
			refused, per := first.expect()
			got := map[string][]string{}
			gotOpts := map[string]string{}
			for t, c := range conns.clients {
				if len(c.queries) == 0 {
					continue
				}
				if len(c.queries) > 1 {
					rep.Violate("target-subscribed-twice", fmt.Sprintf("%s: target %s received %d queries", desc, t, len(c.queries)), replay)
				}
				q := c.queries[0]
				got[t] = []string{}
				for _, s := range q.SubReq.GetSubscribe().GetSubscription() {
					got[t] = append(got[t], c19SubText(s))
				}
				sl := q.SubReq.GetSubscribe()
				gotOpts[t] = fmt.Sprintf("mode=%d enc=%v updatesOnly=%v qos=%v prefixTarget=%s prefixElems=%s", int(sl.GetMode()), sl.GetEncoding(), sl.GetUpdatesOnly(), sl.GetQos().GetMarking(), sl.GetPrefix().GetTarget(), strPathAbs(&gnmi.Path{Elem: sl.GetPrefix().GetElem()}))
			}
			if refused {
				distinct["refused:"+first.PrefixKind] = true
				if err == nil {
					rep.Violate("subscription-without-target-accepted", desc+": a request naming no target is not refused", replay)
				}
				if len(got) != 0 {
					rep.Violate("refused-subscription-forwarded", fmt.Sprintf("%s: refused, yet forwarded to %v", desc, got), replay)
				}
				continue
			}
			distinct[c19PerText(per)] = true
			if c19PerText(per) != c19PerText(got) {
				cl := "entry-forwarded-to-wrong-target"
				if len(got) < len(per) {
					cl = "named-target-not-subscribed"
				}
				rep.Violate(cl, fmt.Sprintf("%s: targets received %s, expected %s", desc, c19PerText(got), c19PerText(per)), replay)
			}
			wantElems := "/"
			if first.PrefixKind == "elems" {
				wantElems = "/cont"
			}
			for t, o := range gotOpts {
				want := fmt.Sprintf("mode=%d enc=%v updatesOnly=%v qos=%v prefixTarget=%s prefixElems=%s", first.Mode, gnmi.Encoding_PROTO, true, 7, t, wantElems)
				if o != want {
					rep.Violate("list-options-altered", fmt.Sprintf("%s: target %s got list options {%s}, expected {%s}", desc, t, o, want), replay)
				}
			}
			// relay: everything the targets sent arrives unchanged, in order
			var relayGot []string
			for _, r := range stream.sent {
				relayGot = append(relayGot, r.String())
			}
			if strings.Join(relayGot, "|") != strings.Join(relayWant, "|") {
				rep.Violate("responses-not-relayed-as-received", fmt.Sprintf("%s: targets sent %d responses %v, the subscriber got %d: %v", desc, len(relayWant), relayWant, len(relayGot), relayGot), replay)
			}
			// later messages
			for i := 1; i < len(seq); i++ {
				switch seq[i].Kind {
				case "subscribe":
					if err == nil {
						rep.Violate("second-subscription-accepted", desc+": a second subscription on the stream is not refused", replay)
					}
				case "empty":
					if err == nil {
						rep.Violate("empty-message-accepted", desc+": a message that is neither subscribe nor poll is not refused", replay)
					}
				case "poll":
					before, after := pollsAt[i-1], pollsAt[i]
					if after == nil {
						// the handler ended before reading on: look at the final counters
						after = map[string]int{}
						for t, c := range conns.clients {
							after[t] = c.polls
						}
					}
					for t := range conns.clients {
						_, subscribed := per[t]
						d := after[t] - before[t]
						if subscribed && t != failing && d != 1 {
							rep.Violate("poll-not-forwarded-to-every-subscribed-target", fmt.Sprintf("%s: message %d is a poll, target %s (subscribed) received %d polls", desc, i, t, d), replay)
						}
						if !subscribed && d != 0 {
							rep.Violate("poll-forwarded-to-unsubscribed-target", fmt.Sprintf("%s: message %d is a poll, target %s (not subscribed) received %d polls", desc, i, t, d), replay)
						}
					}
				}
				if seq[i].Kind != "poll" {
					break // the stream ends with the error
				}
			}
			if evals%53 == 7 {
				rep.Sample(4, map[string]interface{}{"sequence": c19SeqText(seq), "expected": c19PerText(per)})
			}
		}
	}
	rep.Coverage["evaluations"] = evals
	rep.Coverage["distinct_nontrivial"] = len(distinct)
	rep.Coverage["rule"] = "every message sequence of length 1..3 on one stream over {subscribe (7 entry lists of 0..3 entries over path targets none/A/B, x prefix absent/empty/target A/elems x 3 modes), second subscribe, poll, empty}, each message marshalled and unmarshalled, through the real Subscribe handler with fake per-target clients (recording queries, emitting a delete-only notification and a sync response each) and a fake stream; plus the sequences with a poll while one subscribed target has become unavailable; oracles: every entry reaches exactly the named target unmodified with the list options, responses are relayed unchanged and in order, a poll reaches every subscribed target and no other, second subscription / poll or empty first / no target are refused; non-trivial = distinct expected splits"
	return rep
}

func c19PanicClass(seq []c19Msg) string {
	if seq[0].Kind == "subscribe" && seq[0].PrefixKind == "absent" {
		return "subscribe-without-prefix"
	}
	return "other"
}

func c19PerText(per map[string][]string) string {
	var ts []string
	for t := range per {
		ts = append(ts, t)
	}
	sort.Strings(ts)
	var b strings.Builder
	for _, t := range ts {
		b.WriteString(t + "[" + strings.Join(per[t], ", ") + "] ")
	}
	return b.String()
}

func c19SeqText(seq []c19Msg) string {
	var parts []string
	for _, m := range seq {
		if m.Kind == "subscribe" {
			var es []string
			for _, e := range m.Entries {
				es = append(es, e.Path+"@"+e.Target)
			}
			parts = append(parts, fmt.Sprintf("subscribe(prefix %s, mode %d, %v)", m.PrefixKind, m.Mode, es))
		} else {
			parts = append(parts, m.Kind)
		}
	}
	return "[" + strings.Join(parts, " ") + "]"
}

func init() { registerBubble("C19", checkC19) }
