package mc

import (
	"context"
	"fmt"

	configv2 "github.com/onosproject/onos-api/go/onos/config/v2"
	configv3 "github.com/onosproject/onos-api/go/onos/config/v3"
	cfgv2 "github.com/onosproject/onos-config/pkg/store/v2/configuration"
	propv2 "github.com/onosproject/onos-config/pkg/store/v2/proposal"
	txv2 "github.com/onosproject/onos-config/pkg/store/v2/transaction"
	cfgv3 "github.com/onosproject/onos-config/pkg/store/v3/configuration"
	txv3 "github.com/onosproject/onos-config/pkg/store/v3/transaction"
)

// c15Rec is the store-independent view of a record: its key, optimistic-lock version, log index (transactions),
// and two small integer payloads, one written by Update ("payload") and one by UpdateStatus ("status").
type c15Rec struct {
	Key      string `json:"key"`
	Version  uint64 `json:"version"`
	Index    uint64 `json:"index,omitempty"`
	Revision uint64 `json:"revision,omitempty"`
	Payload  string `json:"payload"`
	Status   string `json:"status"`
	Event    string `json:"event,omitempty"`
	raw      interface{}
}

// c15Store adapts one of the five stores.
type c15Store interface {
	Name() string
	Logged() bool // records have a log index
	Create(ctx context.Context, key string, payload int) (c15Rec, error)
	Get(ctx context.Context, key string) (c15Rec, error)
	Update(ctx context.Context, r c15Rec, payload int) (c15Rec, error)
	UpdateStatus(ctx context.Context, r c15Rec, status int) (c15Rec, error)
	List(ctx context.Context) ([]c15Rec, error)
	// Watch subscribes; key "" = all records. The returned function receives the next event directly from the
	// channel handed to the store (no read-ahead: a reader that stops calling it has stopped reading); false =
	// the store closed the channel.
	Watch(ctx context.Context, replay bool, key string) (func() (c15Rec, bool), error)
}

func c15Pipe[E any](in <-chan E, conv func(E) c15Rec) func() (c15Rec, bool) {
	return func() (c15Rec, bool) {
		e, ok := <-in
		if !ok {
			return c15Rec{}, false
		}
		return conv(e), true
	}
}

// ---- v2 transaction ----

type c15TxV2 struct{ s txv2.Store }

func (a c15TxV2) Name() string { return "v2/transaction" }
func (a c15TxV2) Logged() bool { return true }
func (a c15TxV2) rec(t *configv2.Transaction) c15Rec {
	st := ""
	if t.Status.Failure != nil {
		st = t.Status.Failure.Description
	}
	return c15Rec{Key: string(t.ID), Version: t.Version, Index: uint64(t.Index), Revision: uint64(t.Revision), Payload: t.Username, Status: st, raw: t}
}
func (a c15TxV2) Create(ctx context.Context, key string, payload int) (c15Rec, error) {
	t := &configv2.Transaction{ID: configv2.TransactionID(key), Username: fmt.Sprint(payload),
		Details: &configv2.Transaction_Change{Change: &configv2.ChangeTransaction{}}}
	if err := a.s.Create(ctx, t); err != nil {
		return c15Rec{}, err
	}
	return a.rec(t), nil
}
func (a c15TxV2) Get(ctx context.Context, key string) (c15Rec, error) {
	t, err := a.s.Get(ctx, configv2.TransactionID(key))
	if err != nil {
		return c15Rec{}, err
	}
	return a.rec(t), nil
}
func (a c15TxV2) Update(ctx context.Context, r c15Rec, payload int) (c15Rec, error) {
	t := *r.raw.(*configv2.Transaction)
	t.Username = fmt.Sprint(payload)
	if err := a.s.Update(ctx, &t); err != nil {
		return c15Rec{}, err
	}
	return a.rec(&t), nil
}
func (a c15TxV2) UpdateStatus(ctx context.Context, r c15Rec, status int) (c15Rec, error) {
	t := *r.raw.(*configv2.Transaction)
	t.Status.Failure = &configv2.Failure{Description: fmt.Sprint(status)}
	if err := a.s.UpdateStatus(ctx, &t); err != nil {
		return c15Rec{}, err
	}
	return a.rec(&t), nil
}
func (a c15TxV2) List(ctx context.Context) ([]c15Rec, error) {
	l, err := a.s.List(ctx)
	var out []c15Rec
	for _, t := range l {
		out = append(out, a.rec(t))
	}
	return out, err
}
func (a c15TxV2) Watch(ctx context.Context, replay bool, key string) (func() (c15Rec, bool), error) {
	var opts []txv2.WatchOption
	if replay {
		opts = append(opts, txv2.WithReplay())
	}
	if key != "" {
		opts = append(opts, txv2.WithTransactionID(configv2.TransactionID(key)))
	}
	ch := make(chan configv2.TransactionEvent)
	if err := a.s.Watch(ctx, ch, opts...); err != nil {
		return nil, err
	}
	return c15Pipe(ch, func(e configv2.TransactionEvent) c15Rec {
		t := e.Transaction
		r := a.rec(&t)
		r.Event = e.Type.String()
		return r
	}), nil
}

// ---- v2 proposal ----

type c15PropV2 struct{ s propv2.Store }

func (a c15PropV2) Name() string { return "v2/proposal" }
func (a c15PropV2) Logged() bool { return false }
func (a c15PropV2) rec(p *configv2.Proposal) c15Rec {
	st := ""
	if p.Status.PrevIndex != 0 {
		st = fmt.Sprint(uint64(p.Status.PrevIndex))
	}
	return c15Rec{Key: string(p.ID), Version: p.Version, Revision: uint64(p.Revision), Payload: string(p.TargetVersion), Status: st, raw: p}
}
func (a c15PropV2) Create(ctx context.Context, key string, payload int) (c15Rec, error) {
	p := &configv2.Proposal{ID: configv2.ProposalID(key), TargetID: "T", TransactionIndex: 1,
		Details:           &configv2.Proposal_Change{Change: &configv2.ChangeProposal{}},
		TargetTypeVersion: configv2.TargetTypeVersion{TargetType: "mini", TargetVersion: configv2.TargetVersion(fmt.Sprint(payload))}}
	if err := a.s.Create(ctx, p); err != nil {
		return c15Rec{}, err
	}
	return a.rec(p), nil
}
func (a c15PropV2) Get(ctx context.Context, key string) (c15Rec, error) {
	p, err := a.s.Get(ctx, configv2.ProposalID(key))
	if err != nil {
		return c15Rec{}, err
	}
	return a.rec(p), nil
}
func (a c15PropV2) Update(ctx context.Context, r c15Rec, payload int) (c15Rec, error) {
	p := *r.raw.(*configv2.Proposal)
	p.TargetVersion = configv2.TargetVersion(fmt.Sprint(payload))
	if err := a.s.Update(ctx, &p); err != nil {
		return c15Rec{}, err
	}
	return a.rec(&p), nil
}
func (a c15PropV2) UpdateStatus(ctx context.Context, r c15Rec, status int) (c15Rec, error) {
	p := *r.raw.(*configv2.Proposal)
	p.Status.PrevIndex = configv2.Index(status)
	if err := a.s.UpdateStatus(ctx, &p); err != nil {
		return c15Rec{}, err
	}
	return a.rec(&p), nil
}
func (a c15PropV2) List(ctx context.Context) ([]c15Rec, error) {
	l, err := a.s.List(ctx)
	var out []c15Rec
	for _, p := range l {
		out = append(out, a.rec(p))
	}
	return out, err
}
func (a c15PropV2) Watch(ctx context.Context, replay bool, key string) (func() (c15Rec, bool), error) {
	var opts []propv2.WatchOption
	if replay {
		opts = append(opts, propv2.WithReplay())
	}
	if key != "" {
		opts = append(opts, propv2.WithProposalID(configv2.ProposalID(key)))
	}
	ch := make(chan configv2.ProposalEvent)
	if err := a.s.Watch(ctx, ch, opts...); err != nil {
		return nil, err
	}
	return c15Pipe(ch, func(e configv2.ProposalEvent) c15Rec {
		p := e.Proposal
		r := a.rec(&p)
		r.Event = e.Type.String()
		return r
	}), nil
}

// ---- v2 configuration ----
// payload p is written both into the record (Index) and into the committed values (/p), status s into
// Status.Applied.Index and the applied values; a consistent record reads "p/p".

type c15CfgV2 struct{ s cfgv2.Store }

func (a c15CfgV2) Name() string { return "v2/configuration" }
func (a c15CfgV2) Logged() bool { return false }
func v2val(n int) map[string]*configv2.PathValue {
	return map[string]*configv2.PathValue{"/p": {Path: "/p", Value: configv2.TypedValue{Bytes: []byte(fmt.Sprint(n)), Type: configv2.ValueType_STRING}, Index: configv2.Index(n)}}
}
func v2valText(m map[string]*configv2.PathValue) string {
	if v, ok := m["/p"]; ok && v != nil {
		return string(v.Value.Bytes)
	}
	return "-"
}
func (a c15CfgV2) rec(c *configv2.Configuration) c15Rec {
	st := ""
	if c.Status.Applied.Index != 0 || c.Status.Applied.Values != nil {
		st = fmt.Sprintf("%d/%s", c.Status.Applied.Index, v2valText(c.Status.Applied.Values))
	}
	return c15Rec{Key: string(c.ID), Version: c.Version, Revision: uint64(c.Revision), Payload: fmt.Sprintf("%d/%s", c.Index, v2valText(c.Values)), Status: st, raw: c}
}
func (a c15CfgV2) Create(ctx context.Context, key string, payload int) (c15Rec, error) {
	c := &configv2.Configuration{ID: configv2.ConfigurationID(key), TargetID: configv2.TargetID(key), Index: configv2.Index(payload), Values: v2val(payload)}
	if err := a.s.Create(ctx, c); err != nil {
		return c15Rec{}, err
	}
	c.Values = v2val(payload)
	return a.rec(c), nil
}
func (a c15CfgV2) Get(ctx context.Context, key string) (c15Rec, error) {
	c, err := a.s.Get(ctx, configv2.ConfigurationID(key))
	if err != nil {
		return c15Rec{}, err
	}
	return a.rec(c), nil
}
func (a c15CfgV2) Update(ctx context.Context, r c15Rec, payload int) (c15Rec, error) {
	c := *r.raw.(*configv2.Configuration)
	c.Index = configv2.Index(payload)
	c.Values = v2val(payload)
	c.Status.Applied.Values = nil
	if err := a.s.Update(ctx, &c); err != nil {
		return c15Rec{}, err
	}
	c.Values = v2val(payload)
	return a.rec(&c), nil
}
func (a c15CfgV2) UpdateStatus(ctx context.Context, r c15Rec, status int) (c15Rec, error) {
	c := *r.raw.(*configv2.Configuration)
	c.Values = nil
	c.Status.Applied.Index = configv2.Index(status)
	c.Status.Applied.Values = v2val(status)
	if err := a.s.UpdateStatus(ctx, &c); err != nil {
		return c15Rec{}, err
	}
	c.Status.Applied.Values = v2val(status)
	return a.rec(&c), nil
}
func (a c15CfgV2) List(ctx context.Context) ([]c15Rec, error) {
	l, err := a.s.List(ctx)
	var out []c15Rec
	for _, c := range l {
		out = append(out, a.rec(c))
	}
	return out, err
}
func (a c15CfgV2) Watch(ctx context.Context, replay bool, key string) (func() (c15Rec, bool), error) {
	var opts []cfgv2.WatchOption
	if replay {
		opts = append(opts, cfgv2.WithReplay())
	}
	if key != "" {
		opts = append(opts, cfgv2.WithConfigurationID(configv2.ConfigurationID(key)))
	}
	ch := make(chan configv2.ConfigurationEvent)
	if err := a.s.Watch(ctx, ch, opts...); err != nil {
		return nil, err
	}
	return c15Pipe(ch, func(e configv2.ConfigurationEvent) c15Rec {
		c := e.Configuration
		r := a.rec(&c)
		r.Event = e.Type.String()
		return r
	}), nil
}

// ---- v3 transaction ----

type c15TxV3 struct {
	s   txv3.Store
	idx map[string]uint64 // key -> index of the records created so far (needed to watch one record)
}

var c15Target = configv3.Target{ID: "T", Type: "mini", Version: "1"}

func (a c15TxV3) Name() string { return "v3/transaction" }
func (a c15TxV3) Logged() bool { return true }
func (a c15TxV3) rec(t *configv3.Transaction) c15Rec {
	pl := "-"
	if v, ok := t.Values["/p"]; ok {
		pl = string(v.Value.Bytes)
	}
	st := ""
	if t.Status.Change.Ordinal != 0 {
		st = fmt.Sprint(uint64(t.Status.Change.Ordinal))
	}
	return c15Rec{Key: t.Key, Version: t.Version, Index: uint64(t.ID.Index), Revision: uint64(t.Revision), Payload: pl, Status: st, raw: t}
}
func v3val(n int) map[string]configv3.PathValue {
	return map[string]configv3.PathValue{"/p": {Path: "/p", Value: configv3.TypedValue{Bytes: []byte(fmt.Sprint(n)), Type: configv3.ValueType_STRING}, Index: configv3.Index(n)}}
}
func (a c15TxV3) Create(ctx context.Context, key string, payload int) (c15Rec, error) {
	t := &configv3.Transaction{ID: configv3.TransactionID{Target: c15Target}, Values: v3val(payload)}
	t.Key = key
	if err := a.s.Create(ctx, t); err != nil {
		return c15Rec{}, err
	}
	return a.rec(t), nil
}
func (a c15TxV3) Get(ctx context.Context, key string) (c15Rec, error) {
	t, err := a.s.GetKey(ctx, c15Target, key)
	if err != nil {
		return c15Rec{}, err
	}
	t.ID.Target = c15Target
	t.Key = key
	return a.rec(t), nil
}
func (a c15TxV3) Update(ctx context.Context, r c15Rec, payload int) (c15Rec, error) {
	t := *r.raw.(*configv3.Transaction)
	t.Values = v3val(payload)
	if err := a.s.Update(ctx, &t); err != nil {
		return c15Rec{}, err
	}
	return a.rec(&t), nil
}
func (a c15TxV3) UpdateStatus(ctx context.Context, r c15Rec, status int) (c15Rec, error) {
	t := *r.raw.(*configv3.Transaction)
	t.Status.Change.Ordinal = configv3.Ordinal(status)
	if err := a.s.UpdateStatus(ctx, &t); err != nil {
		return c15Rec{}, err
	}
	return a.rec(&t), nil
}
func (a c15TxV3) List(ctx context.Context) ([]c15Rec, error) {
	l, err := a.s.List(ctx)
	var out []c15Rec
	for i := range l {
		out = append(out, a.rec(&l[i]))
	}
	return out, err
}
func (a c15TxV3) Watch(ctx context.Context, replay bool, key string) (func() (c15Rec, bool), error) {
	var opts []txv3.WatchOption
	if replay {
		opts = append(opts, txv3.WithReplay())
	}
	if key != "" {
		opts = append(opts, txv3.WithTransactionID(configv3.TransactionID{Target: c15Target, Index: configv3.Index(a.idx[key])}))
	}
	ch := make(chan configv3.TransactionEvent)
	if err := a.s.Watch(ctx, ch, opts...); err != nil {
		return nil, err
	}
	return c15Pipe(ch, func(e configv3.TransactionEvent) c15Rec {
		t := e.Transaction
		r := a.rec(&t)
		r.Event = e.Type.String()
		return r
	}), nil
}

// ---- v3 configuration ----

type c15CfgV3 struct{ s cfgv3.Store }

func (a c15CfgV3) Name() string { return "v3/configuration" }
func (a c15CfgV3) Logged() bool { return false }
func v3valText(m map[string]configv3.PathValue) string {
	if v, ok := m["/p"]; ok {
		return string(v.Value.Bytes)
	}
	return "-"
}
func (a c15CfgV3) id(key string) configv3.ConfigurationID {
	return configv3.ConfigurationID{Target: configv3.Target{ID: configv3.TargetID(key), Type: "mini", Version: "1"}}
}
func (a c15CfgV3) rec(c *configv3.Configuration) c15Rec {
	st := ""
	if c.Applied.Index != 0 || c.Applied.Values != nil {
		st = fmt.Sprintf("%d/%s", c.Applied.Index, v3valText(c.Applied.Values))
	}
	return c15Rec{Key: string(c.ID.Target.ID), Version: c.Version, Revision: uint64(c.Revision), Payload: fmt.Sprintf("%d/%s", c.Committed.Index, v3valText(c.Committed.Values)), Status: st, raw: c}
}
func (a c15CfgV3) Create(ctx context.Context, key string, payload int) (c15Rec, error) {
	c := &configv3.Configuration{ID: a.id(key)}
	c.Committed.Index = configv3.Index(payload)
	c.Committed.Values = v3val(payload)
	if err := a.s.Create(ctx, c); err != nil {
		return c15Rec{}, err
	}
	c.Committed.Values = v3val(payload)
	return a.rec(c), nil
}
func (a c15CfgV3) Get(ctx context.Context, key string) (c15Rec, error) {
	c, err := a.s.Get(ctx, a.id(key))
	if err != nil {
		return c15Rec{}, err
	}
	return a.rec(c), nil
}
func (a c15CfgV3) Update(ctx context.Context, r c15Rec, payload int) (c15Rec, error) {
	c := *r.raw.(*configv3.Configuration)
	c.Committed.Index = configv3.Index(payload)
	c.Committed.Values = v3val(payload)
	c.Applied.Values = nil
	if err := a.s.Update(ctx, &c); err != nil {
		return c15Rec{}, err
	}
	c.Committed.Values = v3val(payload)
	return a.rec(&c), nil
}
func (a c15CfgV3) UpdateStatus(ctx context.Context, r c15Rec, status int) (c15Rec, error) {
	c := *r.raw.(*configv3.Configuration)
	c.Committed.Values = nil
	c.Applied.Index = configv3.Index(status)
	c.Applied.Values = v3val(status)
	if err := a.s.UpdateStatus(ctx, &c); err != nil {
		return c15Rec{}, err
	}
	c.Applied.Values = v3val(status)
	return a.rec(&c), nil
}
func (a c15CfgV3) List(ctx context.Context) ([]c15Rec, error) {
	l, err := a.s.List(ctx)
	var out []c15Rec
	for _, c := range l {
		out = append(out, a.rec(c))
	}
	return out, err
}
func (a c15CfgV3) Watch(ctx context.Context, replay bool, key string) (func() (c15Rec, bool), error) {
	var opts []cfgv3.WatchOption
	if replay {
		opts = append(opts, cfgv3.WithReplay())
	}
	if key != "" {
		opts = append(opts, cfgv3.WithConfigurationID(a.id(key)))
	}
	ch := make(chan configv3.ConfigurationEvent)
	if err := a.s.Watch(ctx, ch, opts...); err != nil {
		return nil, err
	}
	return c15Pipe(ch, func(e configv3.ConfigurationEvent) c15Rec {
		c := e.Configuration
		r := a.rec(&c)
		r.Event = e.Type.String()
		return r
	}), nil
}

// c15NewStore builds store number i on a fresh simatomix.
func c15NewStore(i int, at *simAtomix) (c15Store, error) {
	switch i {
	case 0:
		s, err := txv2.NewAtomixStore(at)
		return c15TxV2{s}, err
	case 1:
		s, err := propv2.NewAtomixStore(at)
		return c15PropV2{s}, err
	case 2:
		s, err := cfgv2.NewAtomixStore(at)
		return c15CfgV2{s}, err
	case 3:
		s, err := txv3.NewAtomixStore(at)
		return c15TxV3{s, map[string]uint64{}}, err
	case 4:
		s, err := cfgv3.NewAtomixStore(at)
		return c15CfgV3{s}, err
	}
	panic("no such store")
}

var c15StoreNames = []string{"v2/transaction", "v2/proposal", "v2/configuration", "v3/transaction", "v3/configuration"}
