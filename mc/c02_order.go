package mc

import (
	"fmt"
	"os"
	"sort"
	"strings"

	configapi "github.com/onosproject/onos-api/go/onos/config/v2"
	propstore "github.com/onosproject/onos-config/pkg/store/v2/proposal"
)

// C02 – changes reach a target's configuration and device in transaction-log order.
//
// Engine: E1a (any-time model: every reconciler on every object from every state, effectful calls are transitions),
// single crashes and connection faults; monitors on every transition; candidates confirmed under exact queues.

func proposalIndex(id string) (string, uint64) {
	i := strings.LastIndex(id, "-")
	var n uint64
	fmt.Sscan(id[i+1:], &n)
	return id[:i], n
}

func propTerminalForApply(p *configapi.Proposal) bool {
	ph := p.Status.Phases
	if ph.Apply != nil && (ph.Apply.State == configapi.ProposalApplyPhase_APPLIED || ph.Apply.State == configapi.ProposalApplyPhase_FAILED) {
		return true
	}
	if ph.Abort != nil {
		return true // its transaction failed before commit: it will never be applied
	}
	if ph.Validate != nil && ph.Validate.State == configapi.ProposalValidatePhase_FAILED {
		return true
	}
	return false
}

func cfgValuesText(c *configapi.Configuration) string {
	if c == nil {
		return ""
	}
	keys := make([]string, 0, len(c.Values))
	for k, pv := range c.Values {
		if pv.Deleted {
			keys = append(keys, k+"=D")
		} else {
			keys = append(keys, k+"="+tvText(&pv.Value))
		}
	}
	sort.Strings(keys)
	return strings.Join(keys, ";")
}

// c02Aux keeps, per device, the highest proposal index for which an apply request was sent.
func c02Aux(prev string, tr Trans, res *StepResult) string {
	if res == nil || tr.Ctrl != cProp {
		return prev
	}
	target, n := proposalIndex(tr.ID)
	if len(res.DevLog[target]) == 0 {
		return prev
	}
	m := map[string]uint64{}
	for _, f := range strings.Split(prev, ";") {
		if kv := strings.SplitN(f, "=", 2); len(kv) == 2 {
			var v uint64
			fmt.Sscan(kv[1], &v)
			m[kv[0]] = v
		}
	}
	if n > m[target] {
		m[target] = n
	}
	m[fmt.Sprintf("sent:%s:%d", target, n)] = 1
	keys := make([]string, 0, len(m))
	for k := range m {
		keys = append(keys, k)
	}
	sort.Strings(keys)
	var parts []string
	for _, k := range keys {
		parts = append(parts, fmt.Sprintf("%s=%d", k, m[k]))
	}
	return strings.Join(parts, ";")
}

func auxGet(aux, key string) uint64 {
	for _, f := range strings.Split(aux, ";") {
		if kv := strings.SplitN(f, "=", 2); len(kv) == 2 && kv[0] == key {
			var v uint64
			fmt.Sscan(kv[1], &v)
			return v
		}
	}
	return 0
}

// c02Monitor judges one transition. vf / vt are the store views before / after.
func c02Monitor(vf, vt *StoreView, auxBefore string, tr Trans, res *StepResult) (string, string) {
	for id, ct := range vt.Cfgs {
		cf := vf.Cfgs[id]
		var fromCommitted configapi.Index
		if cf != nil {
			fromCommitted = cf.Status.Committed.Index
		}
		if ct.Status.Committed.Index < fromCommitted {
			return "committed-index-decreases", fmt.Sprintf("%s moves the committed index of %s from %d to %d", tr.String(), ct.TargetID, fromCommitted, ct.Status.Committed.Index)
		}
		if cfgValuesText(cf) != cfgValuesText(ct) {
			// the merge of proposal n: n is beyond the committed index and becomes it (a crash inside the step may
			// leave the values written and the index not yet moved: still the next change in order)
			// (a split step: its first half is like a crashed step, its second half like a step)
			// (the second half may also stop short: its conditional record write meets a version conflict after the
			// values write went through – the store's two-step write, a recorded C15 finding – and the step is retried)
			partial := tr.Kind == "crash" || tr.Kind == "hold" || tr.Kind == "release"
			ok := (tr.Kind == "step" || tr.Kind == "release" || partial) && tr.Ctrl == cProp
			var n uint64
			var tgt string
			if ok {
				tgt, n = proposalIndex(tr.ID)
				ok = tgt == string(ct.TargetID) && configapi.Index(n) > fromCommitted &&
					(configapi.Index(n) == ct.Status.Committed.Index || (partial && ct.Status.Committed.Index == fromCommitted))
			}
			if !ok {
				return "merge-out-of-order", fmt.Sprintf("%s changes the stored values of %s (%q -> %q) with committed index %d -> %d", tr.String(), ct.TargetID, cfgValuesText(cf), cfgValuesText(ct), fromCommitted, ct.Status.Committed.Index)
			}
		}
	}
	// a proposal is only ever recorded as applied after its change was sent to the device (scenarios without a prefix:
	// every request the device ever got is in the path's memory)
	auxAfter := c02Aux(auxBefore, tr, res)
	for id, p := range vt.Props {
		if p.Status.Phases.Apply == nil || p.Status.Phases.Apply.State != configapi.ProposalApplyPhase_APPLIED {
			continue
		}
		if q := vf.Props[id]; q != nil && q.Status.Phases.Apply != nil && q.Status.Phases.Apply.State == configapi.ProposalApplyPhase_APPLIED {
			continue
		}
		target, n := proposalIndex(string(id))
		if auxGet(auxAfter, fmt.Sprintf("sent:%s:%d", target, n)) == 0 {
			return "applied-without-being-sent", fmt.Sprintf("%s records transaction %d as applied on %s, but no request for it was ever sent to the device", tr.String(), n, target)
		}
	}
	// (the conditions below only ever become true – phases and cursors move forward – so judging the second half of a
	// split step against the state it continues in is sound)
	if res != nil && (tr.Kind == "step" || tr.Kind == "hold" || tr.Kind == "release") && tr.Ctrl == cProp {
		target, n := proposalIndex(tr.ID)
		for range res.DevLog[target] {
			p := vf.Props[configapi.ProposalID(tr.ID)]
			cf := vf.CfgOf(target)
			if p == nil || cf == nil {
				return "apply-of-unknown-proposal", fmt.Sprintf("%s sends a request to %s", tr.String(), target)
			}
			if p.Status.Phases.Commit == nil || p.Status.Phases.Commit.State != configapi.ProposalCommitPhase_COMMITTED || configapi.Index(n) > cf.Status.Committed.Index {
				return "apply-before-merge", fmt.Sprintf("%s sends the change of transaction %d to device %s although it is not merged (proposal phases %s, committed index %d)", tr.String(), n, target, propPhasesText(p.Status.Phases), cf.Status.Committed.Index)
			}
			for qid, q := range vf.Props {
				qt, qn := proposalIndex(string(qid))
				// finished = recorded in the proposal or, authoritatively, in the configuration's applied index (the
				// proposal record is updated last and may lag behind after a crash)
				if qt == target && qn < n && !propTerminalForApply(q) && configapi.Index(qn) > cf.Status.Applied.Index {
					return "apply-before-predecessor-finished", fmt.Sprintf("%s sends the change of transaction %d to device %s while transaction %d on that target is still %s", tr.String(), n, target, qn, propPhasesText(q.Status.Phases))
				}
			}
			if last := auxGet(auxBefore, target); n < last {
				return "apply-order-regresses", fmt.Sprintf("%s sends the change of transaction %d to device %s after that of transaction %d", tr.String(), n, target, last)
			}
			break
		}
	}
	return "", ""
}

func c02Scenarios(thorough bool) []*Scenario {
	a := func(leaf, v string) SetReqOrCall { return setReq("T1."+leaf+"="+v, upd("T1", "/cont/"+leaf, v)) }
	rejectBad := func(w *World) {
		w.plugins["T1"].SetVerdict(rejectIf(func(f map[string]string) bool { return f["/cont/leafA"] == "bad" }, "leafA must not be bad"))
	}
	scs := []*Scenario{
		{Name: "S2 two Sets on one leaf of T1, connected, one crash", Cfg: WorldConfig{Targets: []string{"T1"}}, Init: connectAll("T1"),
			Requests: []SetReqOrCall{a("leafA", "1"), a("leafA", "2")}, CrashBudget: 1},
		{Name: "S2h two Sets on one leaf of T1, connected; one step split (parked before any of its calls while up to 4 other transitions happen)", Cfg: WorldConfig{Targets: []string{"T1"}}, Init: connectAll("T1"),
			Requests: []SetReqOrCall{a("leafA", "1"), a("leafA", "2")}, HoldBudget: 1, HoldDepth: 4},
		{Name: "S2f two Sets on T1, connection lost and re-established", Cfg: WorldConfig{Targets: []string{"T1"}}, Init: connectAll("T1"),
			Requests: []SetReqOrCall{a("leafA", "1"), a("leafA2", "2")}, Faults: []FaultSpec{faultConnDown("T1"), faultConnUp("T1")}, FaultBudget: 2},
		{Name: "S3 Set on T1+T2 and a neighbour Set on T1, connected", Cfg: WorldConfig{Targets: []string{"T1", "T2"}}, Init: connectAll("T1", "T2"),
			Requests: []SetReqOrCall{setReq("T1.leafA=x+T2.leafA=y", upd("T1", "/cont/leafA", "x"), upd("T2", "/cont/leafA", "y")), a("leafA", "z")}},
		{Name: "S1h one Set on T1+T2, connected; one step split (the proposals of T1 and T2 are reconciled concurrently: the proposal controller is partitioned by target)", Cfg: WorldConfig{Targets: []string{"T1", "T2"}}, Init: connectAll("T1", "T2"),
			Requests: []SetReqOrCall{setReq("T1.leafA=x+T2.leafA=y", upd("T1", "/cont/leafA", "x"), upd("T2", "/cont/leafA", "y"))}, HoldBudget: 1, HoldDepth: 3},
		{Name: "S7 Set, rejected Set, Set on T1; the device connects later", Cfg: WorldConfig{Targets: []string{"T1"}}, Init: rejectBad,
			Requests: []SetReqOrCall{a("leafA", "1"), a("leafA", "bad"), a("leafA", "3")}, Faults: []FaultSpec{faultConnUp("T1")}, FaultBudget: 1},
		{Name: "S4 Set, Set, rollback of the second, connected", Cfg: WorldConfig{Targets: []string{"T1"}}, Init: connectAll("T1"),
			Requests: []SetReqOrCall{a("leafA", "1"), a("leafA", "2"), rollbackReq("rollback(2)", 2)}},
	}
	if thorough {
		scs = append(scs, []*Scenario{
			{Name: "S3h Set on T1+T2 and a neighbour Set on T1, connected; one step split (the proposals of T1 and T2 are reconciled concurrently: the proposal controller is partitioned by target)", Cfg: WorldConfig{Targets: []string{"T1", "T2"}}, Init: connectAll("T1", "T2"),
				Requests: []SetReqOrCall{setReq("T1.leafA=x+T2.leafA=y", upd("T1", "/cont/leafA", "x"), upd("T2", "/cont/leafA", "y")), a("leafA", "z")}, HoldBudget: 1, HoldDepth: 3, MaxStates: 400000},
		}...)
		scs = append(scs,
			&Scenario{Name: "S2cc two Sets on T1, connected, two crashes", Cfg: WorldConfig{Targets: []string{"T1"}}, Init: connectAll("T1"),
				Requests: []SetReqOrCall{a("leafA", "1"), a("leafA", "2")}, CrashBudget: 2},
			&Scenario{Name: "S7c Set, rejected Set, Set on T1, connected, one crash", Cfg: WorldConfig{Targets: []string{"T1"}}, Init: func(w *World) { rejectBad(w); connectAll("T1")(w) },
				Requests: []SetReqOrCall{a("leafA", "1"), a("leafA", "bad"), a("leafA", "3")}, CrashBudget: 1},
			&Scenario{Name: "S3t three Sets on T1, connected", Cfg: WorldConfig{Targets: []string{"T1"}}, Init: connectAll("T1"),
				Requests: []SetReqOrCall{a("leafA", "1"), a("leafA2", "2"), a("leafA", "3")}})
	}
	return scs
}

// runMonitorCheck is the common body of the checks that judge every transition of the any-time graph.
func runMonitorCheck(rc *RunCtx, rep *Report, scs []*Scenario,
	aux func(prev string, tr Trans, res *StepResult) string,
	monitor func(sc *Scenario, vf, vt *StoreView, auxBefore string, tr Trans, res *StepResult) (string, string),
	onState func(sc *Scenario, x *Explorer, s *E1State, cands *candidates),
	onTerminal ...func(sc *Scenario, x *Explorer, s *E1State, cands *candidates)) {
	nums, extra := runSharded(rc, rep, len(scs), func(sh Shard, rep *Report) *ShardResult {
		out := newShardResult()
		for i, sc := range scs {
			if !sh.Mine(i) || (os.Getenv("VERIF_ONLY") != "" && !strings.Contains(sc.Name, os.Getenv("VERIF_ONLY"))) {
				continue
			}
			sc := sc
			sc.Mode = QAny
			if sc.MaxStates == 0 {
				sc.MaxStates = 400000
			}
			if os.Getenv("VERIF_NO_MAP_ORDER") == "" {
				// every step is also tried with another iteration order of each of its maps (one deviation at a time)
				sc.MapOrderDeviations = true
			}
			x := &Explorer{RC: rc, Rep: rep, Sc: sc}
			cands := newCandidates(false)
			views := map[uint64]*StoreView{}
			devReqs, judged := 0, 0
			viewOf := func(s *E1State) *StoreView {
				if v, ok := views[s.key]; ok {
					return v
				}
				x.W.Restore(s.snap)
				v := x.W.fastView()
				views[s.key] = v
				return v
			}
			if aux != nil {
				x.Hooks.Aux = func(x *Explorer, from *E1State, tr Trans, res *StepResult) string { return aux(from.aux, tr, res) }
			}
			x.Hooks.OnTransition = func(x *Explorer, from *E1State, tr Trans, res *StepResult, to *E1State) {
				if monitor == nil {
					return
				}
				vf := viewOf(from)
				vt := viewOf(to)
				judged++
				if os.Getenv("VERIF_DEBUG_T") != "" {
					for id, c := range vt.Cfgs {
						if cfgValuesText(vf.Cfgs[id]) != cfgValuesText(c) {
							fmt.Printf("DBG %s: %s values %q -> %q committed %d aux=%q\n", sc.Name, tr.String(), cfgValuesText(vf.Cfgs[id]), cfgValuesText(c), c.Status.Committed.Index, from.aux)
						}
					}
				}
				if res != nil {
					for _, l := range res.DevLog {
						devReqs += len(l)
					}
				}
				if cl, text := monitor(sc, vf, vt, from.aux, tr, res); cl != "" {
					auxBefore := from.aux
					cands.considerStep(from, tr, cl, fmt.Sprintf("scenario %q: %s", sc.Name, text), func(w *World, before *StoreView, r *StepResult) (bool, string) {
						c2, t2 := monitor(sc, before, w.View(), auxBefore, tr, r)
						return c2 == cl, t2
					})
				}
			}
			if onState != nil {
				x.Hooks.OnState = func(x *Explorer, s *E1State) { onState(sc, x, s, cands) }
			}
			terminals := 0
			if len(onTerminal) > 0 {
				x.Hooks.OnExpanded = func(x *Explorer, s *E1State, outN int) {
					if outN == 0 {
						terminals++
						onTerminal[0](sc, x, s, cands)
					}
				}
			}
			x.Run()
			cands.resolve(x, rep, sc)
			out.Numbers["terminal_states"] += int64(terminals)
			if n, diff := x.ValidateOnRealAtomix(envInt("VERIF_VALIDATE", 3)); diff != "" {
				rep.HarnessErr = "trace validation on the real atomix runtime: " + diff
			} else {
				out.Numbers["traces_validated"] += int64(n)
			}
			out.Numbers["states"] += int64(x.States)
			out.Numbers["transitions"] += int64(x.Transitions)
			out.Numbers["split_steps"] += int64(x.Splits)
			out.Numbers["map_order_deviations"] += int64(x.MapDeviations)
			out.Numbers["reconcile_calls_tried"] += int64(x.Probes)
			out.Numbers["transitions_judged"] += int64(judged)
			out.Numbers["device_requests_judged"] += int64(devReqs)
			out.Numbers["candidates"] += int64(cands.total)
			out.Numbers["unconfirmed_candidates"] += int64(cands.unconfirmed)
			out.Numbers["confirm_search_nodes"] += int64(cands.nodes)
			if x.Capped {
				rep.Exhaustive = false
			}
			if len(cands.notes) > 0 {
				out.Extra["unconfirmed: "+sc.Name] = cands.notes
			}
			out.Extra[sc.Name] = map[string]interface{}{"states": x.States, "transitions": x.Transitions, "max_depth": x.MaxDepth, "capped": x.Capped}
		}
		return out
	})
	e1Coverage(rep, nums, extra)
}

func checkC02(rc *RunCtx) *Report {
	rep := newReport("model_checking")
	scs := c02Scenarios(rc.Thorough())
	if rc.Replay != "" {
		replayE1(rc, rep, scs)
		return rep
	}
	runMonitorCheck(rc, rep, scs, c02Aux, func(sc *Scenario, vf, vt *StoreView, auxBefore string, tr Trans, res *StepResult) (string, string) {
		return c02Monitor(vf, vt, auxBefore, tr, res)
	}, nil)
	return rep
}

var _ = propstore.NewID

func init() { registerBubble("C02", checkC02) }
