package mc

import (
	"context"
	"fmt"
	"strings"
	"testing/synctest"

	"github.com/onosproject/onos-api/go/onos/config/admin"
	configapi "github.com/onosproject/onos-api/go/onos/config/v2"
	"github.com/openconfig/gnmi/proto/gnmi"
	"github.com/openconfig/gnmi/proto/gnmi_ext"
	"google.golang.org/grpc/status"
	gproto "google.golang.org/protobuf/proto"
)

// C12 – no request can crash the server (E3h over a request shape grammar; every message is marshalled and
// unmarshalled first, every handler call and every reconcile step it causes runs under recover()).

type c12Path struct {
	Name string
	P    *gnmi.Path
}

func elem(name string, kv ...string) *gnmi.PathElem {
	e := &gnmi.PathElem{Name: name}
	for i := 0; i+1 < len(kv); i += 2 {
		if e.Key == nil {
			e.Key = map[string]string{}
		}
		e.Key[kv[i]] = kv[i+1]
	}
	return e
}

func c12Paths(target string) []c12Path {
	t := func(name string, elems ...*gnmi.PathElem) c12Path {
		return c12Path{name, &gnmi.Path{Target: target, Elem: elems}}
	}
	return []c12Path{
		{"nil", nil},
		t("no-elems"),
		t("leaf", elem("cont"), elem("leafA")),
		t("container", elem("cont")),
		t("unknown", elem("unknown")),
		t("empty-name", elem("")),
		t("name-with-brackets", elem("cont"), elem("a[b]")),
		t("name-with-closing-bracket", elem("cont"), elem("x]")),
		t("name-with-paren", elem("cont"), elem("a(")),
		t("name-with-plus-backslash", elem("cont"), elem(`a+\`)),
		t("star", elem("*")),
		t("star-leaf", elem("*"), elem("leafA")),
		t("ellipsis", elem("cont"), elem("..."), elem("val")),
		t("list-leaf", elem("cont"), elem("list", "name", "a"), elem("val")),
		t("list-entry", elem("cont"), elem("list", "name", "a")),
		t("list-no-key", elem("cont"), elem("list")),
		t("list-key-leaf", elem("cont"), elem("list", "name", "a"), elem("name")),
		t("key-with-slash", elem("cont"), elem("list", "name", "a/b"), elem("val")),
		t("key-with-bracket", elem("cont"), elem("list", "name", "a]b"), elem("val")),
		t("key-with-open-bracket", elem("cont"), elem("list", "name", "a[b"), elem("val")),
		t("key-with-equals", elem("cont"), elem("list", "name", "="), elem("val")),
		t("key-with-backslash", elem("cont"), elem("list", "name", `\`), elem("val")),
		t("key-with-space-star", elem("cont"), elem("list", "name", " *"), elem("val")),
		t("key-empty-value", elem("cont"), elem("list", "name", ""), elem("val")),
		t("key-empty-name", elem("cont"), elem("list", "", "a"), elem("val")),
		t("two-keys", elem("cont"), elem("l2", "k1", "1", "k2", "x"), elem("val")),
		t("one-of-two-keys", elem("cont"), elem("l2", "k1", "1"), elem("val")),
		t("leaflist-string", elem("cont"), elem("ll")),
		t("leaflist-uint", elem("cont"), elem("llu")),
		t("decimal", elem("cont"), elem("dec")),
		t("uint64", elem("cont"), elem("u64")),
		t("int8", elem("cont"), elem("i8")),
		t("bytes", elem("cont"), elem("by")),
		t("bool", elem("cont"), elem("b")),
		t("float", elem("cont"), elem("f")),
		{"deprecated-element", &gnmi.Path{Target: target, Element: []string{"cont", "leafA"}}},
		{"origin", &gnmi.Path{Target: target, Origin: "x", Elem: []*gnmi.PathElem{elem("cont"), elem("leafA")}}},
	}
}

type c12Val struct {
	Name string
	V    *gnmi.TypedValue
}

func c12Values() []c12Val {
	sv := func(s string) *gnmi.TypedValue { return gstr(s) }
	return []c12Val{
		{"nil", nil},
		{"no-oneof", &gnmi.TypedValue{}},
		{"string", sv("x")},
		{"int", &gnmi.TypedValue{Value: &gnmi.TypedValue_IntVal{IntVal: -1}}},
		{"uint", &gnmi.TypedValue{Value: &gnmi.TypedValue_UintVal{UintVal: 7}}},
		{"bool", &gnmi.TypedValue{Value: &gnmi.TypedValue_BoolVal{BoolVal: true}}},
		{"bytes", &gnmi.TypedValue{Value: &gnmi.TypedValue_BytesVal{BytesVal: []byte{0}}}},
		{"decimal", &gnmi.TypedValue{Value: &gnmi.TypedValue_DecimalVal{DecimalVal: &gnmi.Decimal64{Digits: 5, Precision: 1}}}},
		{"decimal-nil", &gnmi.TypedValue{Value: &gnmi.TypedValue_DecimalVal{}}},
		{"float", &gnmi.TypedValue{Value: &gnmi.TypedValue_FloatVal{FloatVal: 1.5}}},
		{"leaflist-nil", &gnmi.TypedValue{Value: &gnmi.TypedValue_LeaflistVal{}}},
		{"leaflist-empty", &gnmi.TypedValue{Value: &gnmi.TypedValue_LeaflistVal{LeaflistVal: &gnmi.ScalarArray{}}}},
		{"leaflist-strings", &gnmi.TypedValue{Value: &gnmi.TypedValue_LeaflistVal{LeaflistVal: &gnmi.ScalarArray{Element: []*gnmi.TypedValue{sv("a"), sv("b")}}}}},
		{"leaflist-mixed", &gnmi.TypedValue{Value: &gnmi.TypedValue_LeaflistVal{LeaflistVal: &gnmi.ScalarArray{Element: []*gnmi.TypedValue{sv("a"), {Value: &gnmi.TypedValue_IntVal{IntVal: 1}}, {}}}}}},
		{"leaflist-decimal-nil", &gnmi.TypedValue{Value: &gnmi.TypedValue_LeaflistVal{LeaflistVal: &gnmi.ScalarArray{Element: []*gnmi.TypedValue{{Value: &gnmi.TypedValue_DecimalVal{}}}}}}},
		{"json", &gnmi.TypedValue{Value: &gnmi.TypedValue_JsonVal{JsonVal: []byte(`{"leafA":"j"}`)}}},
		{"json-malformed", &gnmi.TypedValue{Value: &gnmi.TypedValue_JsonVal{JsonVal: []byte(`{`)}}},
		{"json-list", &gnmi.TypedValue{Value: &gnmi.TypedValue_JsonVal{JsonVal: []byte(`{"list":[{"name":"a"}]}`)}}},
		{"json-ietf", &gnmi.TypedValue{Value: &gnmi.TypedValue_JsonIetfVal{JsonIetfVal: []byte(`{"leafA":"j"}`)}}},
		{"ascii", &gnmi.TypedValue{Value: &gnmi.TypedValue_AsciiVal{AsciiVal: "a"}}},
		{"any-nil", &gnmi.TypedValue{Value: &gnmi.TypedValue_AnyVal{}}},
		{"proto-bytes", &gnmi.TypedValue{Value: &gnmi.TypedValue_ProtoBytes{ProtoBytes: []byte{1}}}},
	}
}

type c12Prefix struct {
	Name string
	P    *gnmi.Path
}

func c12Prefixes() []c12Prefix {
	return []c12Prefix{
		{"absent", nil},
		{"empty", &gnmi.Path{}},
		{"target", &gnmi.Path{Target: "T1"}},
		{"elems", &gnmi.Path{Elem: []*gnmi.PathElem{elem("cont")}}},
		{"both", &gnmi.Path{Target: "T1", Elem: []*gnmi.PathElem{elem("cont")}}},
		{"star-target", &gnmi.Path{Target: "*"}},
		{"weird-elems", &gnmi.Path{Target: "T1", Elem: []*gnmi.PathElem{elem("a[b")}}},
	}
}

type c12Ext struct {
	Name string
	E    []*gnmi_ext.Extension
}

func c12Extensions() []c12Ext {
	reg := func(id int, msg []byte) *gnmi_ext.Extension {
		return &gnmi_ext.Extension{Ext: &gnmi_ext.Extension_RegisteredExt{RegisteredExt: &gnmi_ext.RegisteredExtension{Id: gnmi_ext.ExtensionID(id), Msg: msg}}}
	}
	ov := configapi.TargetVersionOverrides{Overrides: map[string]*configapi.TargetTypeVersion{"T1": {TargetType: "mini-a", TargetVersion: "1.0.0"}}}
	ovb, _ := ov.Marshal()
	ovEmpty := configapi.TargetVersionOverrides{}
	ovEmptyB, _ := ovEmpty.Marshal()
	ovNilEntry := configapi.TargetVersionOverrides{Overrides: map[string]*configapi.TargetTypeVersion{"T1": nil}}
	ovNilB, _ := ovNilEntry.Marshal()
	ovOther := configapi.TargetVersionOverrides{Overrides: map[string]*configapi.TargetTypeVersion{"T1": {TargetType: "nosuch", TargetVersion: "9"}}}
	ovOtherB, _ := ovOther.Marshal()
	out := []c12Ext{
		{"none", nil},
		{"sync", []*gnmi_ext.Extension{transactionStrategyExt(true)}},
		{"override", []*gnmi_ext.Extension{reg(int(configapi.TargetVersionOverridesID), ovb)}},
		{"override-empty", []*gnmi_ext.Extension{reg(int(configapi.TargetVersionOverridesID), ovEmptyB)}},
		{"override-zero-bytes", []*gnmi_ext.Extension{reg(int(configapi.TargetVersionOverridesID), []byte{})}},
		{"override-nil-entry", []*gnmi_ext.Extension{reg(int(configapi.TargetVersionOverridesID), ovNilB)}},
		{"override-unknown-model", []*gnmi_ext.Extension{reg(int(configapi.TargetVersionOverridesID), ovOtherB)}},
		{"no-oneof", []*gnmi_ext.Extension{{}}},
		{"registered-nil", []*gnmi_ext.Extension{{Ext: &gnmi_ext.Extension_RegisteredExt{}}}},
		{"master-arbitration", []*gnmi_ext.Extension{{Ext: &gnmi_ext.Extension_MasterArbitration{MasterArbitration: &gnmi_ext.MasterArbitration{}}}}},
	}
	for id := 100; id <= 112; id++ {
		out = append(out, c12Ext{fmt.Sprintf("garbage-%d", id), []*gnmi_ext.Extension{reg(id, []byte{0xff, 0xff, 0x01})}})
	}
	return out
}

func roundTripSet(r *gnmi.SetRequest) *gnmi.SetRequest {
	b, err := gproto.Marshal(r)
	if err != nil {
		return nil
	}
	d := &gnmi.SetRequest{}
	if gproto.Unmarshal(b, d) != nil {
		return nil
	}
	return d
}

func roundTripGet(r *gnmi.GetRequest) *gnmi.GetRequest {
	b, err := gproto.Marshal(r)
	if err != nil {
		return nil
	}
	d := &gnmi.GetRequest{}
	if gproto.Unmarshal(b, d) != nil {
		return nil
	}
	return d
}

type c12World struct {
	name string
	hw   *HistWorld
	snap *WorldSnap
}

func c12Worlds() []*c12World {
	var out []*c12World
	mk := func(name string, prep func(hw *HistWorld)) {
		hw := NewHistWorld(WorldConfig{Targets: []string{"T1", "T2"}}, true)
		prep(hw)
		out = append(out, &c12World{name, hw, hw.W.Snapshot()})
	}
	mk("empty", func(hw *HistWorld) {})
	mk("populated", func(hw *HistWorld) {
		hw.ExecSet(context.Background(), SetReq{Ops: []ReqOp{upd("T1", "/cont/leafA", "x"), upd("T1", "/cont/list[name=a]/val", "1"), upd("T1", "/cont/sub/leafC", "c")}}.build(), nil)
		hw.ExecSet(context.Background(), SetReq{Ops: []ReqOp{del("T1", "/cont/sub")}}.build(), nil)
	})
	mk("configuration-without-values", func(hw *HistWorld) {
		hw.W.plugins["T1"].SetVerdict(rejectAll)
		hw.ExecSet(context.Background(), SetReq{Ops: []ReqOp{upd("T1", "/cont/leafA", "x")}}.build(), nil)
		hw.W.plugins["T1"].SetVerdict(nil)
	})
	return out
}

// callUnder runs f on its own goroutine under recover and waits for quiescence.
func callUnder(f func()) (pan string, returned bool) {
	done := false
	go func() {
		defer func() {
			if r := recover(); r != nil {
				pan = notePanic(r)
			}
			done = true
		}()
		f()
	}()
	synctest.Wait()
	return pan, done
}

func checkC12(rc *RunCtx) *Report {
	rep := newReport("exploration")
	worlds := c12Worlds()
	paths := c12Paths("T1")
	pathsNoTarget := c12Paths("")
	vals := c12Values()
	prefixes := c12Prefixes()
	exts := c12Extensions()
	nums, _ := runSharded(rc, rep, defaultWorkers(), func(sh Shard, rep *Report) *ShardResult {
		out := newShardResult()
		evals := 0
		item := 0
		distinct := hashSet{}
		mine := func() bool { item++; return sh.Mine(item) }
		for _, cw := range worlds {
			hw, w := cw.hw, cw.hw.W
			admSrv := w.admin
			record := func(handler, desc, pan string, returned bool, replay map[string]interface{}) {
				evals++
				if pan != "" {
					rep.Violate("panic/"+handler+"/"+lastPanicSite, fmt.Sprintf("world %s: %s panics: %s", cw.name, desc, oneLine(pan)), replay)
				} else if !returned {
					rep.Violate("no-answer/"+handler, fmt.Sprintf("world %s: %s does not return", cw.name, desc), replay)
				}
			}
			// ---- Set ----
			setCase := func(desc string, req *gnmi.SetRequest) {
				if !mine() {
					return
				}
				wire := roundTripSet(req)
				if wire == nil {
					return
				}
				w.Restore(cw.snap)
				res := hw.ExecSet(context.Background(), wire, nil)
				p := res.Panic
				if len(res.Panics) > 0 {
					p = strings.Join(res.Panics, "; ")
					record("reconcile-after-set", "Set "+desc, p, true, map[string]interface{}{"kind": "c12-set", "desc": desc})
				} else {
					record("set", "Set "+desc, p, res.Done || p != "", map[string]interface{}{"kind": "c12-set", "desc": desc})
				}
				if res.Err == nil && res.Done {
					rep.Sample(3, map[string]interface{}{"world": cw.name, "request": "Set " + desc, "outcome": "accepted", "reconcile_steps": res.Steps})
					distinct.Add("set-accepted:" + desc)
				} else {
					distinct.Add("set-refused:" + fmt.Sprint(res.Code))
				}
			}
			for _, pf := range prefixes {
				for _, pa := range append(append([]c12Path{}, paths...), pathsNoTarget[2], pathsNoTarget[13]) {
					for _, va := range vals {
						setCase(fmt.Sprintf("update prefix=%s path=%s value=%s", pf.Name, pa.Name, va.Name), &gnmi.SetRequest{Prefix: pf.P, Update: []*gnmi.Update{{Path: pa.P, Val: va.V}}})
					}
					setCase(fmt.Sprintf("replace prefix=%s path=%s value=string", pf.Name, pa.Name), &gnmi.SetRequest{Prefix: pf.P, Replace: []*gnmi.Update{{Path: pa.P, Val: gstr("r")}}})
					setCase(fmt.Sprintf("delete prefix=%s path=%s", pf.Name, pa.Name), &gnmi.SetRequest{Prefix: pf.P, Delete: []*gnmi.Path{pa.P}})
				}
			}
			for _, ex := range exts {
				for _, pa := range []c12Path{paths[2], paths[13], paths[4]} {
					setCase(fmt.Sprintf("update path=%s ext=%s", pa.Name, ex.Name), &gnmi.SetRequest{Update: []*gnmi.Update{{Path: pa.P, Val: gstr("e")}}, Extension: ex.E})
				}
			}
			setCase("nil update entry", &gnmi.SetRequest{Update: []*gnmi.Update{nil}})
			setCase("empty", &gnmi.SetRequest{})
			setCase("duplicates", &gnmi.SetRequest{Update: []*gnmi.Update{{Path: paths[2].P, Val: gstr("1"), Duplicates: 3}}})
			// ---- Get ----
			encodings := []gnmi.Encoding{gnmi.Encoding_JSON, gnmi.Encoding_BYTES, gnmi.Encoding_PROTO, gnmi.Encoding_ASCII, gnmi.Encoding_JSON_IETF, gnmi.Encoding(99)}
			types := []gnmi.GetRequest_DataType{gnmi.GetRequest_ALL, gnmi.GetRequest_CONFIG, gnmi.GetRequest_STATE, gnmi.GetRequest_OPERATIONAL}
			getCase := func(desc string, req *gnmi.GetRequest) {
				if !mine() {
					return
				}
				wire := roundTripGet(req)
				if wire == nil {
					return
				}
				w.Restore(cw.snap)
				var err error
				pan, ret := callUnder(func() { _, err = w.gnmi.Get(context.Background(), wire) })
				record("get", "Get "+desc, pan, ret, map[string]interface{}{"kind": "c12-get", "desc": desc})
				distinct.Add(fmt.Sprintf("get:%v", err == nil))
				if err != nil {
					rep.Sample(6, map[string]interface{}{"world": cw.name, "request": "Get " + desc, "outcome": status.Code(err).String()})
				}
			}
			for _, pf := range prefixes {
				for _, pa := range append(append([]c12Path{}, paths...), pathsNoTarget[2]) {
					for _, en := range encodings {
						for _, ty := range types {
							if (ty == gnmi.GetRequest_STATE || ty == gnmi.GetRequest_CONFIG) && en != gnmi.Encoding_PROTO {
								continue
							}
							var ps []*gnmi.Path
							if pa.P != nil || pa.Name == "nil" {
								ps = []*gnmi.Path{pa.P}
							}
							getCase(fmt.Sprintf("prefix=%s path=%s enc=%v type=%v", pf.Name, pa.Name, en, ty), &gnmi.GetRequest{Prefix: pf.P, Path: ps, Encoding: en, Type: ty})
						}
					}
				}
				getCase(fmt.Sprintf("prefix=%s no path", pf.Name), &gnmi.GetRequest{Prefix: pf.P, Encoding: gnmi.Encoding_PROTO})
				getCase(fmt.Sprintf("prefix=%s no path json", pf.Name), &gnmi.GetRequest{Prefix: pf.P, Encoding: gnmi.Encoding_JSON})
			}
			for _, ex := range exts {
				getCase("leaf ext="+ex.Name, &gnmi.GetRequest{Path: []*gnmi.Path{paths[2].P}, Encoding: gnmi.Encoding_PROTO, Extension: ex.E})
			}
			// ---- Capabilities ----
			if mine() {
				pan, ret := callUnder(func() { _, _ = w.gnmi.Capabilities(context.Background(), &gnmi.CapabilityRequest{}) })
				record("capabilities", "Capabilities", pan, ret, nil)
			}
			// ---- Subscribe ----
			subCase := func(desc string, msgs []*gnmi.SubscribeRequest) {
				if !mine() {
					return
				}
				var wire []*gnmi.SubscribeRequest
				for _, m := range msgs {
					b, err := gproto.Marshal(m)
					if err != nil {
						return
					}
					d := &gnmi.SubscribeRequest{}
					if gproto.Unmarshal(b, d) != nil {
						return
					}
					wire = append(wire, d)
				}
				conns := &fakeSubConns{clients: map[string]*fakeSubClient{"A": {target: "A"}, "T1": {target: "T1"}}}
				srv := newGnmiServerWithConns(w, conns)
				stream := &fakeSubStream{ctx: context.Background(), in: wire}
				pan, ret := callUnder(func() { _ = srv.Subscribe(stream) })
				record("subscribe", "Subscribe "+desc, pan, ret, map[string]interface{}{"kind": "c12-subscribe", "desc": desc})
				distinct.Add("subscribe:" + desc[:min(len(desc), 12)])
			}
			for _, seq := range c19Sequences(2, false) {
				var msgs []*gnmi.SubscribeRequest
				for _, m := range seq {
					msgs = append(msgs, m.build())
				}
				subCase(c19SeqText(seq), msgs)
			}
			subCase("subscribe with nil list", []*gnmi.SubscribeRequest{{Request: &gnmi.SubscribeRequest_Subscribe{}}})
			subCase("subscription with nil path", []*gnmi.SubscribeRequest{{Request: &gnmi.SubscribeRequest_Subscribe{Subscribe: &gnmi.SubscriptionList{Prefix: &gnmi.Path{}, Subscription: []*gnmi.Subscription{{}}}}}})
			subCase("nil subscription entry", []*gnmi.SubscribeRequest{{Request: &gnmi.SubscribeRequest_Subscribe{Subscribe: &gnmi.SubscriptionList{Prefix: &gnmi.Path{Target: "A"}, Subscription: []*gnmi.Subscription{nil}}}}})
			for _, pa := range paths {
				subCase("path="+pa.Name, []*gnmi.SubscribeRequest{{Request: &gnmi.SubscribeRequest_Subscribe{Subscribe: &gnmi.SubscriptionList{Prefix: &gnmi.Path{}, Subscription: []*gnmi.Subscription{{Path: pa.P}}}}}})
			}
			// ---- admin ----
			admCase := func(desc string, f func()) {
				if !mine() {
					return
				}
				w.Restore(cw.snap)
				pan, ret := callUnder(f)
				if !ret && pan == "" {
					// a rollback handler waits for its transaction: run the controllers, then look again
					q := w.Settle()
					w.Drain(q, drainLimit, nil)
					synctest.Wait()
				}
				record("admin", desc, pan, true, map[string]interface{}{"kind": "c12-admin", "desc": desc})
				distinct.Add("admin:" + desc[:min(len(desc), 16)])
			}
			for _, idx := range []uint64{0, 1, 2, 3, 99} {
				idx := idx
				admCase(fmt.Sprintf("RollbackTransaction(%d)", idx), func() {
					_, _ = admSrv.RollbackTransaction(context.Background(), &admin.RollbackRequest{Index: configapi.Index(idx)})
				})
			}
			for _, tg := range []string{"T1", "T2", "unknown", ""} {
				for _, ty := range [][2]string{{"mini-a", "1.0.0"}, {"", ""}, {"nosuch", "1"}} {
					for _, sp := range []string{"", "/cont/leafA", "/cont/list[name=a]/val", "a[b"} {
						ctxs := []struct {
							n string
							r *gnmi.SetRequest
						}{{"nil", nil}, {"empty", &gnmi.SetRequest{}},
							{"update", &gnmi.SetRequest{Update: []*gnmi.Update{{Path: paths[2].P, Val: gstr("q")}}}},
							{"replace-list", &gnmi.SetRequest{Replace: []*gnmi.Update{{Path: paths[13].P, Val: gstr("q")}}}},
							{"delete", &gnmi.SetRequest{Delete: []*gnmi.Path{paths[3].P}}},
							{"weird", &gnmi.SetRequest{Prefix: prefixes[6].P, Update: []*gnmi.Update{{Path: paths[6].P, Val: nil}}, Delete: []*gnmi.Path{nil, paths[7].P}}},
							{"json", &gnmi.SetRequest{Update: []*gnmi.Update{{Path: paths[3].P, Val: vals[15].V}}}}}
						for _, cc := range ctxs {
							tg, ty, sp, cc := tg, ty, sp, cc
							admCase(fmt.Sprintf("LeafSelectionQuery(target=%q type=%q/%q selection=%q context=%s)", tg, ty[0], ty[1], sp, cc.n), func() {
								_, _ = admSrv.LeafSelectionQuery(context.Background(), &admin.LeafSelectionQueryRequest{Target: tg, Type: ty[0], Version: ty[1], SelectionPath: sp, ChangeContext: cc.r})
							})
						}
					}
				}
			}
			for _, id := range []string{"", "x", "uuid:1"} {
				for _, idx := range []uint64{0, 1, 99} {
					id, idx := id, idx
					admCase(fmt.Sprintf("GetTransaction(%q,%d)", id, idx), func() {
						_, _ = admSrv.GetTransaction(context.Background(), &admin.GetTransactionRequest{ID: configapi.TransactionID(id), Index: configapi.Index(idx)})
					})
				}
			}
			for _, id := range []string{"", "x", "T1-mini-a-1.0.0"} {
				id := id
				admCase(fmt.Sprintf("GetConfiguration(%q)", id), func() {
					_, _ = admSrv.GetConfiguration(context.Background(), &admin.GetConfigurationRequest{ConfigurationID: configapi.ConfigurationID(id)})
				})
			}
		}
		out.Numbers["evaluations"] = int64(evals)
		out.Distinct["outcomes"] = distinct.List()
		return out
	})
	rep.Coverage["evaluations"] = nums["evaluations"]
	rep.Coverage["distinct_nontrivial"] = nums["distinct:outcomes"]
	rep.Coverage["rule"] = fmt.Sprintf("request shape grammar x 3 worlds (empty, populated with a list entry and a tombstone, configuration without values): Set = %d prefixes x %d paths (nil, no elems, leaf, container, unknown, empty / bracketed / regexp-special names, wildcards, list paths with key values containing / ] [ = \\ space *, empty key name or value, partial keys, deprecated element form, origin) x %d values (every TypedValue variant incl. absent, empty and mixed leaf-lists, nil decimal, JSON valid/malformed/list) as update, replace and delete, plus %d extension shapes (valid strategy/override, empty, nil entry, unknown model, garbage bytes under ids 100..112); Get = prefixes x paths x 6 encodings x 4 types + extensions; Capabilities; Subscribe = the C19 sequences of length <=2 plus nil list / nil path / nil entry / every path; admin = RollbackTransaction, LeafSelectionQuery (targets x models x selection paths x 7 change contexts), GetTransaction, GetConfiguration (a nil request message cannot arrive over gRPC and is not in the grammar); every message marshalled and unmarshalled; handlers and the reconcile steps they cause run under recover(); non-trivial = distinct outcomes (accepted requests by shape, refusals by status code)", len(prefixes), len(paths)+2, len(vals), len(exts))
	rep.Assumptions = append(rep.Assumptions, "coverage-guided mutation (named in the quantifier) is sampling and belongs to another family: the grammar is enumerated exhaustively instead", "streaming admin calls (List*/Watch*) are not driven")
	return rep
}

func init() { registerBubble("C12", checkC12) }
