package mc

import (
	"fmt"
	"os"
	"sort"
	"strings"

	configv3 "github.com/onosproject/onos-api/go/onos/config/v3"
	"google.golang.org/grpc/codes"
)

// C20 – the v3 transaction protocol keeps its specified order and consistency.
//
// Engine: E1 in the work-set model over a V3 world (real v3 transaction / configuration / mastership controllers,
// real v3 stores over simatomix, real watchers, the shared connection and target controllers, simulated topo and
// device). Transitions: a pending reconcile step; the next client operation of the scenario (append a change, move a
// committed change to the rollback phase: the spec's AppendChange / RollbackChange); crash@k inside a step; a step
// of one controller held before one of its store writes while a step of another controller or the client operation
// runs (write conflicts, stale reads: "every partial write between the transaction and configuration records");
// connection loss / re-establishment and device restart. Oracles are the spec's Order and Consistency invariants
// (spec/Config.tla), the blocking rule for failed / aborted applies, and termination on idle states. A finding of
// the work-set model is reported only after its trace was replayed under the exact queue discipline of the
// controller runtime (Explorer.RealizeExact) and the oracle failed again on that real execution.

const (
	p3Pending    = configv3.TransactionPhaseStatus_PENDING
	p3InProgress = configv3.TransactionPhaseStatus_IN_PROGRESS
	p3Complete   = configv3.TransactionPhaseStatus_COMPLETE
	p3Aborted    = configv3.TransactionPhaseStatus_ABORTED
	p3Canceled   = configv3.TransactionPhaseStatus_CANCELED
	p3Failed     = configv3.TransactionPhaseStatus_FAILED
)

// st3 is the state of a phase (-1: the phase does not exist yet).
func st3(p *configv3.TransactionPhaseStatus) configv3.TransactionPhaseStatus_State {
	if p == nil {
		return -1
	}
	return p.State
}

type c20Phases struct {
	cc, ca, rc, ra configv3.TransactionPhaseStatus_State
}

func phasesOf(t *configv3.Transaction) c20Phases {
	return c20Phases{st3(t.Status.Change.Commit), st3(t.Status.Change.Apply), st3(t.Status.Rollback.Commit), st3(t.Status.Rollback.Apply)}
}

func sameValue3(a, b configv3.PathValue) bool {
	return a.Deleted == b.Deleted && (a.Deleted || string(a.Value.Bytes) == string(b.Value.Bytes))
}

// c20Transition judges one transition by the spec's Order invariant (IsOrderedChange / IsOrderedRollback evaluated
// at the moment a phase becomes Complete) and "each phase is committed before it is applied".
func c20Transition(vf, vt *V3View, target string) (string, string) {
	for _, tt := range vt.Txs[target] {
		i := uint64(tt.ID.Index)
		tf := vf.Tx(target, i)
		pt := phasesOf(tt)
		pf := c20Phases{-1, -1, -1, -1}
		if tf != nil {
			pf = phasesOf(tf)
		}
		type ev struct {
			name        string
			before, now configv3.TransactionPhaseStatus_State
			rollback    bool
			of          func(p c20Phases) (change, rollback configv3.TransactionPhaseStatus_State)
		}
		evs := []ev{
			{"change commit", pf.cc, pt.cc, false, func(p c20Phases) (a, b configv3.TransactionPhaseStatus_State) { return p.cc, p.rc }},
			{"change apply", pf.ca, pt.ca, false, func(p c20Phases) (a, b configv3.TransactionPhaseStatus_State) { return p.ca, p.ra }},
			{"rollback commit", pf.rc, pt.rc, true, func(p c20Phases) (a, b configv3.TransactionPhaseStatus_State) { return p.cc, p.rc }},
			{"rollback apply", pf.ra, pt.ra, true, func(p c20Phases) (a, b configv3.TransactionPhaseStatus_State) { return p.ca, p.ra }},
		}
		for _, e := range evs {
			if e.now != p3Complete || e.before == p3Complete {
				continue
			}
			// the phase of transaction i completes in this transition
			for _, of := range vf.Txs[target] {
				j := uint64(of.ID.Index)
				if j <= i {
					continue
				}
				ch, rb := e.of(phasesOf(of))
				if !e.rollback && ch == p3Complete {
					return "order/change-completes-after-a-later-one", fmt.Sprintf("%s of transaction %d completes although the %s of the later transaction %d is already complete", e.name, i, e.name, j)
				}
				if e.rollback && ch == p3Complete && rb != p3Complete {
					return "order/rollback-before-a-later-change-was-rolled-back", fmt.Sprintf("%s of transaction %d completes although the later transaction %d (same step %s) is not rolled back", e.name, i, j, strings.TrimPrefix(e.name, "rollback "))
				}
			}
			if e.rollback && pt.cc != p3Complete {
				return "order/rollback-of-an-uncommitted-change", fmt.Sprintf("%s of transaction %d completes, its change commit is %s", e.name, i, pt.cc)
			}
		}
		// committed before applied
		if (pt.ca == p3InProgress || pt.ca == p3Complete) && pt.cc != p3Complete {
			return "apply-before-commit/change", fmt.Sprintf("transaction %d: change apply is %s while change commit is %s", i, pt.ca, pt.cc)
		}
		if (pt.ra == p3InProgress || pt.ra == p3Complete) && pt.rc != p3Complete {
			return "apply-before-commit/rollback", fmt.Sprintf("transaction %d: rollback apply is %s while rollback commit is %s", i, pt.ra, pt.rc)
		}
		// a phase that is Complete, Failed or Aborted stays so
		for k, pair := range [][2]configv3.TransactionPhaseStatus_State{{pf.cc, pt.cc}, {pf.ca, pt.ca}, {pf.rc, pt.rc}, {pf.ra, pt.ra}} {
			if (pair[0] == p3Complete || pair[0] == p3Failed || pair[0] == p3Aborted) && pair[1] != pair[0] {
				return "final-phase-state-changes", fmt.Sprintf("transaction %d: phase %d goes from %s to %s", i, k, pair[0], pair[1])
			}
		}
	}
	return "", ""
}

// c20State judges one state by the spec's Consistency invariant (stored configuration part) and the blocking rule.
func c20State(v *V3View, target string) (string, string) {
	cfg := v.Cfgs[target]
	if cfg == nil {
		return "", ""
	}
	// The spec updates revision and values in one step; the implementation writes the values and the record one
	// after the other (and the device in between), so while a commit / apply is in flight the stored values may
	// already be those of the transaction in flight: the invariant is judged when nothing is in flight.
	commitInFlight, applyInFlight := false, false
	for _, t := range v.Txs[target] {
		p := phasesOf(t)
		if p.cc == p3InProgress || p.rc == p3InProgress || uint64(cfg.Committed.Target) != uint64(cfg.Committed.Index) && uint64(cfg.Committed.Target) == uint64(t.ID.Index) && p.cc == p3Pending {
			commitInFlight = true
		}
		if p.ca == p3InProgress || p.ra == p3InProgress {
			applyInFlight = true
		}
	}
	if r := uint64(cfg.Committed.Revision); r > 0 && !commitInFlight {
		if tx := v.Tx(target, r); tx != nil && phasesOf(tx).cc == p3Complete && phasesOf(tx).rc != p3Complete {
			for p, want := range tx.Values {
				got, ok := cfg.Committed.Values[p]
				if !ok || !sameValue3(got, want) {
					return "consistency/committed-values-differ-from-the-committed-revision", fmt.Sprintf("committed revision is %d, its value %s is stored as %v (present %v)", r, pv3Text(want), pv3Text(got), ok)
				}
			}
		}
	}
	// (a revision whose apply was aborted is named by Applied.Revision after the rollback of its successor
	// although its values never reached the applied configuration: only an applied change is held to it)
	if a := uint64(cfg.Applied.Revision); a > 0 && !applyInFlight {
		if tx := v.Tx(target, a); tx != nil && phasesOf(tx).ca == p3Complete && phasesOf(tx).ra != p3Complete {
			for p, want := range tx.Values {
				got, ok := cfg.Applied.Values[p]
				if !ok || !sameValue3(got, want) {
					cl := "consistency/applied-values-differ-from-the-applied-revision"
					// cause attribution: the stored value is that of a later change whose apply failed – left behind by
					// the store's two-step write (values, then record) when the applying step died in between
					for _, later := range v.Txs[target] {
						if uint64(later.ID.Index) > a && phasesOf(later).ca == p3Failed {
							if lv, has := later.Values[p]; has && ok && sameValue3(got, lv) {
								cl += "/value-of-a-later-failed-apply-left-behind"
								break
							}
						}
					}
					return cl, fmt.Sprintf("applied revision is %d, its value %s is stored as %v (present %v)", a, pv3Text(want), pv3Text(got), ok)
				}
			}
		}
	}
	txs := v.Txs[target]
	for _, t := range txs {
		p := phasesOf(t)
		if (p.ca == p3Failed || p.ca == p3Aborted) && p.ra != p3Complete {
			for _, l := range txs {
				if l.ID.Index > t.ID.Index {
					if q := phasesOf(l); q.ca == p3InProgress || q.ca == p3Complete {
						return "blocking/later-change-applied-past-a-failed-one", fmt.Sprintf("change apply of transaction %d is %s and it is not rolled back (rollback apply %v), yet the apply of the later transaction %d is %s", t.ID.Index, p.ca, p.ra, l.ID.Index, q.ca)
					}
				}
			}
		}
	}
	return "", ""
}

// c20Reference folds the changes of the log that count for the committed (apply=false) or applied configuration:
// committed = change commit Complete and rollback commit not Complete; applied = change apply Complete and rollback
// apply not Complete. settled is false while one of the deciding phases is in flight.
func c20Reference(v *V3View, target string, applied bool) (ref map[string]string, settled bool) {
	ref = map[string]string{}
	settled = true
	for _, t := range v.Txs[target] {
		p := phasesOf(t)
		ch, rb := p.cc, p.rc
		if applied {
			ch, rb = p.ca, p.ra
		}
		if ch == p3Pending || ch == p3InProgress || rb == p3Pending || rb == p3InProgress {
			if !(applied && p.cc == p3Failed) {
				settled = false
			}
		}
		if ch != p3Complete || rb == p3Complete {
			continue
		}
		paths := make([]string, 0, len(t.Values))
		for path := range t.Values {
			paths = append(paths, path)
		}
		sort.Strings(paths)
		for _, path := range paths { // deletes first, then updates (a change is one gNMI Set)
			if t.Values[path].Deleted {
				for k := range ref {
					if devCovers(path, k) {
						delete(ref, k)
					}
				}
			}
		}
		for _, path := range paths {
			if !t.Values[path].Deleted {
				ref[path] = devValueText(gstr(string(t.Values[path].Value.Bytes)))
			}
		}
	}
	return ref, settled
}

// live3 gives the readable leaves of a stored value map: entries that are not deleted and not covered by a
// tombstone above them that is as recent as they are (the committed values keep the children of a deleted subtree
// next to its tombstone; whoever reads them prunes).
func live3(m map[string]configv3.PathValue) map[string]string {
	out := map[string]string{}
	for p, v := range m {
		if v.Deleted {
			continue
		}
		covered := false
		for tp, t := range m {
			if t.Deleted && tp != p && devCovers(tp, p) && t.Index >= v.Index {
				covered = true
			}
		}
		if !covered {
			out[p] = devValueText(gstr(string(v.Value.Bytes)))
		}
	}
	return out
}

// c20Idle judges a state in which no controller work is pending and every client operation has been submitted:
// termination, and the configuration and device holding the values of the changes that count.
func c20Idle(w *World, target string, requestsLeft int) (string, string) {
	v := w.View3()
	cfg := v.Cfgs[target]
	conn := string(w.conns.LiveConn(topoID(target)))
	mastered := cfg != nil && cfg.Status.Mastership != nil && conn != "" && string(cfg.Status.Mastership.Master) == conn
	synced := mastered && cfg.Status.State == configv3.ConfigurationStatus_SYNCHRONIZED && cfg.Applied.Term == cfg.Status.Mastership.Term
	// a rollback of a change that is not the latest committed one waits, by design, until the later changes have
	// been rolled back; what is stuck at or behind such a transaction is named as such
	behind := func(index configv3.Index) string {
		for _, t := range v.Txs[target] {
			if t.ID.Index > index || t.Status.Phase != configv3.TransactionStatus_ROLLBACK || phasesOf(t).rc != p3Pending {
				continue
			}
			for _, l := range v.Txs[target] {
				if l.ID.Index > t.ID.Index && phasesOf(l).cc == p3Complete && phasesOf(l).rc != p3Complete {
					return "/behind-a-rollback-that-waits-for-the-rollback-of-a-later-change"
				}
			}
		}
		return ""
	}
	for _, t := range v.Txs[target] {
		p := phasesOf(t)
		commitDone := func(s configv3.TransactionPhaseStatus_State) bool { return s == p3Complete || s == p3Failed }
		applyDone := func(s configv3.TransactionPhaseStatus_State) bool {
			return s == p3Complete || s == p3Aborted || s == p3Failed || s == p3Canceled
		}
		if !commitDone(p.cc) {
			return "termination/change-commit-never-finishes", fmt.Sprintf("nothing is pending any more, transaction %d: %s", t.ID.Index, tx3Text(t))
		}
		if t.Status.Phase == configv3.TransactionStatus_ROLLBACK && !commitDone(p.rc) && requestsLeft == 0 {
			// a rollback waits for the later changes to be rolled back first: only final when nobody will ask for that
			later := false
			for _, l := range v.Txs[target] {
				if l.ID.Index > t.ID.Index && phasesOf(l).cc == p3Complete && phasesOf(l).rc != p3Complete {
					later = true
				}
			}
			if !later {
				return "termination/rollback-commit-never-finishes", fmt.Sprintf("nothing is pending any more, transaction %d: %s", t.ID.Index, tx3Text(t))
			}
		}
		if synced {
			if !applyDone(p.ca) {
				return "termination/change-apply-never-finishes" + behind(t.ID.Index), fmt.Sprintf("nothing is pending any more, target connected, mastered and synchronized, transaction %d: %s; %s", t.ID.Index, tx3Text(t), cfg3Text(cfg))
			}
			if t.Status.Phase == configv3.TransactionStatus_ROLLBACK && p.rc == p3Complete && !applyDone(p.ra) {
				return "termination/rollback-apply-never-finishes" + behind(t.ID.Index), fmt.Sprintf("nothing is pending any more, target connected, mastered and synchronized, transaction %d: %s; %s", t.ID.Index, tx3Text(t), cfg3Text(cfg))
			}
		}
	}
	if cfg == nil {
		return "", ""
	}
	if ref, settled := c20Reference(v, target, false); settled {
		if missing, extra, wrong := diffLeaves(ref, live3(cfg.Committed.Values)); len(missing)+len(extra)+len(wrong) > 0 {
			return "consistency/committed-configuration-differs-from-the-log", fmt.Sprintf("nothing is pending any more: committed values lack %v, hold unexpected %v, differ in %v; log: %s", missing, extra, wrong, v.Canon())
		}
	}
	if synced {
		if ref, settled := c20Reference(v, target, true); settled {
			if missing, extra, wrong := diffLeaves(ref, live3(cfg.Applied.Values)); len(missing)+len(extra)+len(wrong) > 0 {
				return "consistency/applied-configuration-differs-from-the-log", fmt.Sprintf("nothing is pending any more: applied values lack %v, hold unexpected %v, differ in %v; log: %s", missing, extra, wrong, v.Canon())
			}
			if missing, extra, wrong := diffLeaves(ref, w.devices[target].Content()); len(missing)+len(extra)+len(wrong) > 0 {
				return "consistency/device-differs-from-the-applied-changes", fmt.Sprintf("nothing is pending any more, target connected, mastered in term %d and SYNCHRONIZED: device lacks %v, holds unexpected %v, differs in %v; log: %s", cfg.Status.Mastership.Term, missing, extra, wrong, v.Canon())
			}
		}
	}
	return "", ""
}

func c20Scenarios(thorough bool) []*Scenario {
	cfg := WorldConfig{Targets: []string{"T1"}, V3: true}
	a1 := appendChange3("append 1: leafA=a", "T1", "/cont/leafA", "a")
	a2 := appendChange3("append 2: leafA=b", "T1", "/cont/leafA", "b")
	a2o := appendChange3("append 2: leafA2=b", "T1", "/cont/leafA2", "b")
	committed := func(index uint64) func(w *World) bool {
		return func(w *World) bool {
			t := w.View3().Tx("T1", index)
			return t != nil && t.Status.Phase == configv3.TransactionStatus_CHANGE && st3(t.Status.Change.Commit) == p3Complete
		}
	}
	rb := func(index uint64) SetReqOrCall {
		r := rollbackChange3(fmt.Sprintf("rollback %d", index), "T1", index)
		r.Enabled = committed(index)
		return r
	}
	connected := connectAll("T1")
	scs := []*Scenario{
		{Name: "V1q one change, connected; one crash", Cfg: cfg, Init: connected, Requests: []SetReqOrCall{a1}, CrashBudget: 1},
		{Name: "V1o two changes of one path, target not connected (commits only); one crash", Cfg: cfg, Requests: []SetReqOrCall{a1, a2}, CrashBudget: 1},
		{Name: "V1i two changes of one path, connected; one interleaving", Cfg: cfg, Init: connected, Requests: []SetReqOrCall{a1, a2}, InterleaveBudget: 1},
		{Name: "V1h two changes of one path, connected; one step split (parked before any of its calls while up to 3 other transitions happen)", Cfg: cfg, Init: connected, Requests: []SetReqOrCall{a1, a2}, HoldBudget: 1, HoldDepth: 3},
		{Name: "V6p one change applied before the exploration starts, then connection lost and re-established; one step split", Cfg: cfg, Init: connected,
			Prefix: []func(w *World) *Call{a1.Call},
			Faults: []FaultSpec{faultConnDown("T1"), faultConnUp("T1")}, FaultBudget: 2, HoldBudget: 1, HoldDepth: 4},
		{Name: "V2o change and its rollback, target not connected (commits only); one crash", Cfg: cfg, Requests: []SetReqOrCall{a1, rb(1)}, CrashBudget: 1},
		{Name: "V2i change and its rollback, connected; one interleaving", Cfg: cfg, Init: connected, Requests: []SetReqOrCall{a1, rb(1)}, InterleaveBudget: 1},
		{Name: "V3 two changes, rollback of the second then of the first, connected", Cfg: cfg, Init: connected, Requests: []SetReqOrCall{a1, a2, rb(2), rb(1)}},
		{Name: "V3r two changes, rollback of the first requested before that of the second, connected", Cfg: cfg, Init: connected, Requests: []SetReqOrCall{a1, a2o, rb(1), rb(2)}},
		{Name: "V10 change, its rollback, another change, connected", Cfg: cfg, Init: connected, Requests: []SetReqOrCall{a1, rb(1), appendChange3("append 2: leafA2=b", "T1", "/cont/leafA2", "b")}},
		{Name: "V4 valid change, change rejected by the model, valid change, connected", Cfg: cfg, Init: func(w *World) {
			connected(w)
			w.plugins["T1"].SetVerdict(rejectIf(func(f map[string]string) bool { return f["/cont/leafA2"] == "bad" }, "leafA2 must not be bad"))
		}, Requests: []SetReqOrCall{a1, appendChange3("append 2: leafA2=bad", "T1", "/cont/leafA2", "bad"), appendChange3("append 3: leafA=c", "T1", "/cont/leafA", "c")}},
		{Name: "V5 device refuses the first change, second change, rollback of the first, connected", Cfg: cfg, Init: func(w *World) {
			connected(w)
			w.devices["T1"].refuse = map[string]codes.Code{"/cont/leafA=" + devValueText(gstr("a")): codes.InvalidArgument}
		}, Requests: []SetReqOrCall{a1, a2o, rb(1)}},
		{Name: "V6 one change, connection lost and re-established", Cfg: cfg, Init: connected, Requests: []SetReqOrCall{a1},
			Faults: []FaultSpec{faultConnDown("T1"), faultConnUp("T1")}, FaultBudget: 2},
		{Name: "V7 change of two leaves, subtree delete; device restart (re-synchronisation)", Cfg: cfg, Init: connected,
			Requests: []SetReqOrCall{appendChange3("append 1: leafA=a sub/leafC=c", "T1", "/cont/leafA", "a", "/cont/sub/leafC", "c"),
				appendChange3("append 2: delete /cont/sub", "T1", "/cont/sub", "<delete>")},
			Faults: []FaultSpec{faultDeviceRestart("T1")}, FaultBudget: 1},
		{Name: "V7p leaf, delete of its container, leaf again - applied before the exploration starts; then the device restarts empty (re-synchronisation, every map iteration order)", Cfg: cfg, Init: connected,
			Prefix: []func(w *World) *Call{
				appendChange3("append 1: sub/leafC=c", "T1", "/cont/sub/leafC", "c").Call,
				appendChange3("append 2: delete /cont/sub", "T1", "/cont/sub", "<delete>").Call,
				appendChange3("append 3: sub/leafC=d", "T1", "/cont/sub/leafC", "d").Call},
			Faults: []FaultSpec{faultDeviceRestart("T1")}, FaultBudget: 1, MapOrderDeviations: true},
		{Name: "V8 change appended while the target is not connected, then it connects", Cfg: cfg, Requests: []SetReqOrCall{a1, a2o},
			Faults: []FaultSpec{faultConnUp("T1")}, FaultBudget: 1},
		{Name: "V8i change appended while the target connects (mastership, synchronisation and transaction controllers interleaved at their store writes)", Cfg: cfg, Requests: []SetReqOrCall{a1},
			Faults: []FaultSpec{faultConnUp("T1")}, FaultBudget: 1, InterleaveBudget: 1},
	}
	if thorough {
		scs = append(scs,
			&Scenario{Name: "V6h one change, connection lost and re-established; one step split", Cfg: cfg, Init: connected, Requests: []SetReqOrCall{a1},
				Faults: []FaultSpec{faultConnDown("T1"), faultConnUp("T1")}, FaultBudget: 2, HoldBudget: 1, HoldDepth: 4, MaxStates: 1500000},
			&Scenario{Name: "V2x two changes of one path and the rollback of the second, connected; one crash", Cfg: cfg, Init: connected, Requests: []SetReqOrCall{a1, a2, rb(2)}, CrashBudget: 1},
			&Scenario{Name: "V1 two changes of one path, connected; one crash", Cfg: cfg, Init: connected, Requests: []SetReqOrCall{a1, a2}, CrashBudget: 1},
			&Scenario{Name: "V2 change and its rollback, connected; one crash", Cfg: cfg, Init: connected, Requests: []SetReqOrCall{a1, rb(1)}, CrashBudget: 1},
			&Scenario{Name: "V6r two changes, device restart", Cfg: cfg, Init: connected, Requests: []SetReqOrCall{a1, a2o},
				Faults: []FaultSpec{faultDeviceRestart("T1")}, FaultBudget: 1},
			&Scenario{Name: "V6t two changes, connection lost and re-established, device restart", Cfg: cfg, Init: connected, Requests: []SetReqOrCall{a1, a2o},
				Faults: []FaultSpec{faultConnDown("T1"), faultConnUp("T1"), faultDeviceRestart("T1")}, FaultBudget: 2},
			&Scenario{Name: "V7t change, subtree delete, change beside it; device restart (re-synchronisation)", Cfg: cfg, Init: connected,
				Requests: []SetReqOrCall{appendChange3("append 1: leafA=a sub/leafC=c", "T1", "/cont/leafA", "a", "/cont/sub/leafC", "c"),
					appendChange3("append 2: delete /cont/sub", "T1", "/cont/sub", "<delete>"), appendChange3("append 3: leafA2=z", "T1", "/cont/leafA2", "z")},
				Faults: []FaultSpec{faultDeviceRestart("T1")}, FaultBudget: 1},
			&Scenario{Name: "V1c two changes of one path, connected; crash and interleaving", Cfg: cfg, Init: connected, Requests: []SetReqOrCall{a1, a2}, CrashBudget: 1, InterleaveBudget: 1},
			&Scenario{Name: "V3i two changes and their rollbacks, connected; one interleaving", Cfg: cfg, Init: connected, Requests: []SetReqOrCall{a1, a2, rb(2), rb(1)}, InterleaveBudget: 1},
			&Scenario{Name: "V3c two changes and their rollbacks, connected; one crash", Cfg: cfg, Init: connected, Requests: []SetReqOrCall{a1, a2, rb(2), rb(1)}, CrashBudget: 1},
			&Scenario{Name: "V9 three changes, connected; two interleavings", Cfg: cfg, Init: connected, Requests: []SetReqOrCall{a1, a2o, appendChange3("append 3: leafA=c", "T1", "/cont/leafA", "c")}, InterleaveBudget: 2})
	}
	return scs
}

type c20Cand struct {
	class, what string
	state       *E1State
	kind        string // transition | state | idle
}

func checkC20(rc *RunCtx) *Report {
	rep := newReport("model_checking")
	scs := c20Scenarios(rc.Thorough())
	if rc.Replay != "" {
		replayE1(rc, rep, scs)
		return rep
	}
	nums, extra := runSharded(rc, rep, len(scs), func(sh Shard, rep *Report) *ShardResult {
		out := newShardResult()
		for i, sc := range scs {
			if !sh.Mine(i) || (os.Getenv("VERIF_ONLY") != "" && !strings.Contains(sc.Name, os.Getenv("VERIF_ONLY"))) {
				continue
			}
			sc := sc
			sc.Mode = QWorkSet
			if sc.MaxStates == 0 {
				sc.MaxStates = 400000
			}
			x := &Explorer{RC: rc, Rep: rep, Sc: sc}
			views := map[uint64]*V3View{}
			viewOf := func(s *E1State, atWorld bool) *V3View {
				if v, ok := views[s.key]; ok {
					return v
				}
				if !atWorld {
					x.W.Restore(s.snap)
				}
				v := x.W.View3()
				views[s.key] = v
				return v
			}
			cands := map[string][]*c20Cand{}
			note := func(class, what string, s *E1State, kind string) {
				if len(cands[class]) < 6 { // breadth-first: the first ones are the shallowest
					cands[class] = append(cands[class], &c20Cand{class, what, s, kind})
				}
			}
			judged, idles, panics := 0, 0, 0
			outcomes := hashSet{}
			x.Hooks.OnTransition = func(x *Explorer, from *E1State, tr Trans, res *StepResult, to *E1State) {
				vt := viewOf(to, true)
				vf := viewOf(from, false)
				judged++
				if res != nil && res.Panic != "" {
					panics++
					note("panic/"+lastPanicSite, fmt.Sprintf("scenario %q: %s panics: %s", sc.Name, tr.String(), res.Panic), to, "transition")
				}
				if cl, what := c20Transition(vf, vt, "T1"); cl != "" {
					note(cl, fmt.Sprintf("scenario %q: transition %s: %s", sc.Name, tr.String(), what), to, "transition")
				}
			}
			x.Hooks.OnState = func(x *Explorer, s *E1State) {
				v := viewOf(s, false)
				if cl, what := c20State(v, "T1"); cl != "" {
					note(cl, fmt.Sprintf("scenario %q: %s; state: %s", sc.Name, what, v.Canon()), s, "state")
				}
				left := len(sc.Requests) - s.env.NextReq
				if s.Idle() {
					x.W.Restore(s.snap)
					if left > 0 {
						if r := sc.Requests[s.env.NextReq]; r.Enabled == nil || r.Enabled(x.W) {
							return // the client can still act from here
						}
					}
					idles++
					var o []string
					for _, t := range v.Txs["T1"] {
						o = append(o, fmt.Sprintf("%v", phasesOf(t)))
					}
					outcomes.Add(sc.Name + strings.Join(o, " "))
					if cl, what := c20Idle(x.W, "T1", left); cl != "" {
						note(cl, fmt.Sprintf("scenario %q: %s", sc.Name, what), s, "idle")
					}
				}
			}
			x.Run()
			// confirmation: the trace of every candidate is replayed under the exact queue discipline
			confirmed, unconfirmed := 0, 0
			var notes []string
			classes := make([]string, 0, len(cands))
			for cl := range cands {
				classes = append(classes, cl)
			}
			sort.Strings(classes)
			for _, cl := range classes {
				done := false
				var lastWhy string
				for _, c := range cands[cl] {
					if done {
						break
					}
					trace := c.state.Trace()
					var last, prev *V3View
					failed := ""
					why := x.RealizeExact(trace, c.kind == "idle", func(i int, t Trans, res *StepResult) {
						if c.kind != "transition" {
							return
						}
						prev, last = last, x.W.View3()
						if prev == nil {
							return
						}
						if res != nil && res.Panic != "" && strings.HasPrefix(cl, "panic/") {
							failed = res.Panic
						}
						if c2, w2 := c20Transition(prev, last, "T1"); c2 == cl {
							failed = w2
						}
					})
					how := fmt.Sprintf("trace of %d moves replayed under exact queues: %v", len(trace), c.state.TraceStrings())
					if why == "" {
						switch c.kind {
						case "state":
							if c2, w2 := c20State(x.W.View3(), "T1"); c2 == cl {
								failed = w2
							}
						case "idle":
							if c2, w2 := c20Idle(x.W, "T1", len(sc.Requests)-c.state.env.NextReq); c2 == cl {
								failed = w2
							}
						}
					}
					if (why != "" || failed == "") && c.kind == "idle" {
						// second attempt: the requests of the scenario one after the other, each run to idle under the
						// default schedule (oldest token first), which is an execution of the exact model by construction
						w := x.W
						w.Restore(x.init.snap)
						var sched []string
						q := []Token{}
						for _, r := range sc.Requests {
							if r.Enabled != nil && !r.Enabled(w) {
								break
							}
							call := r.Call(w)
							if !call.Done {
								call.Cancel()
							}
							sched = append(sched, "client:"+r.Name)
							q = append(q, w.Settle()...)
							_, q = w.Drain(q, drainLimit, func(t Token, r StepResult) {
								if r.Effects > 0 {
									sched = append(sched, t.Ctrl+"("+t.ID+")")
								}
							})
						}
						if c2, w2 := c20Idle(w, "T1", 0); c2 == cl && len(q) == 0 {
							why, failed = "", w2
							c.what = fmt.Sprintf("scenario %q: %s", sc.Name, w2)
							how = fmt.Sprintf("requests submitted one after the other, each run to idle oldest-token-first: %v", sched)
						}
					}
					if (why != "" || failed == "") && c.kind != "transition" {
						// third attempt: search for a schedule of the exact queue model that reaches the same world
						// content (restricted to the candidate's cone) and run it for real
						conf := x.ConfirmExact(c.state, ConfirmOpts{NeedIdle: c.kind == "idle", MaxNodes: 300000, Check: func(w *World) (bool, string) {
							if c.kind == "idle" {
								c2, w2 := c20Idle(w, "T1", len(sc.Requests)-c.state.env.NextReq)
								return c2 == cl, w2
							}
							c2, w2 := c20State(w.View3(), "T1")
							return c2 == cl, w2
						}})
						if conf.Confirmed {
							why, failed = "", conf.Detail
							how = "exact-queue schedule found by search and run for real: " + strings.Join(schedStrings(conf.Schedule), " ")
							trace = conf.Schedule
						} else if why == "" {
							why = "exact search: " + conf.Reason
						}
					}
					if why == "" && failed != "" {
						done = true
						confirmed++
						rep.Violate(cl, c.what+" ["+how+"]", map[string]interface{}{"kind": "e1", "scenario": sc.Name, "trace": trace})
					} else {
						lastWhy = fmt.Sprintf("%s: not confirmed under exact queues (%s); candidate: %s; trace %v", cl, why, c.what, c.state.TraceStrings())
					}
				}
				if !done {
					unconfirmed++
					notes = append(notes, lastWhy)
				}
			}
			if n, diff := x.ValidateOnRealAtomix(envInt("VERIF_VALIDATE", 3)); diff != "" {
				rep.HarnessErr = "trace validation on the real atomix runtime: " + diff
			} else {
				out.Numbers["traces_validated"] += int64(n)
			}
			out.Numbers["states"] += int64(x.States)
			out.Numbers["transitions"] += int64(x.Transitions)
			out.Numbers["split_steps"] += int64(x.Splits)
			out.Numbers["map_order_deviations"] += int64(x.MapDeviations)
			out.Numbers["transitions_judged"] += int64(judged)
			out.Numbers["interleavings"] += int64(x.Interleavings)
			out.Numbers["write_conflicts_provoked"] += int64(x.conflicts)
			out.Numbers["idle_states_judged"] += int64(idles)
			out.Numbers["candidates"] += int64(len(cands))
			out.Numbers["unconfirmed_candidates"] += int64(unconfirmed)
			out.Numbers["traces_validated"] += int64(confirmed + unconfirmed)
			out.Distinct["idle_outcomes"] = append(out.Distinct["idle_outcomes"], outcomes.List()...)
			if x.Capped {
				rep.Exhaustive = false
			}
			if len(notes) > 0 {
				out.Extra["unconfirmed: "+sc.Name] = notes
			}
			out.Extra[sc.Name] = map[string]interface{}{"states": x.States, "transitions": x.Transitions, "idle_states": idles, "interleavings": x.Interleavings, "max_depth": x.MaxDepth, "capped": x.Capped}
		}
		return out
	})
	e1Coverage(rep, nums, extra)
	rep.Assumptions = append(rep.Assumptions, "a Reconcile call is atomic except where an interleaving transition holds it before one of its store writes (budgeted per path)",
		"one onos-config node; the v3 stack has no northbound in the repository: changes are appended and moved to the rollback phase through the v3 transaction store, as the specification's AppendChange / RollbackChange do; the configuration record is created with an empty mastership status",
		"work-set model of the controller queues; every reported finding was replayed under the exact queue discipline")
	return rep
}

func init() { registerBubble("C20", checkC20) }
