package mc

import (
	"context"
	"sort"
	"sync"

	topoapi "github.com/onosproject/onos-api/go/onos/topo"
	"github.com/onosproject/onos-lib-go/pkg/errors"
)

// simTopo is an in-memory topo.Store (the real one is a pass-through to the onos-topo service).
type simTopo struct {
	mu       sync.Mutex
	objects  map[topoapi.ID]*topoapi.Object
	revision uint64
	watchers map[*simTopoWatcher]struct{}
	effects  int
	fuse     *fuse
}

type simTopoWatcher struct {
	ch chan topoapi.Event // unbounded-ish buffer between the store and the watcher's goroutine
}

func newSimTopo(f *fuse) *simTopo {
	return &simTopo{fuse: f, objects: map[topoapi.ID]*topoapi.Object{}, watchers: map[*simTopoWatcher]struct{}{}}
}

func cloneObject(o *topoapi.Object) *topoapi.Object {
	b, err := o.Marshal()
	if err != nil {
		panic(err)
	}
	c := &topoapi.Object{}
	if err := c.Unmarshal(b); err != nil {
		panic(err)
	}
	return c
}

func (t *simTopo) dead() bool { return t.fuse.Crashed() }

func (t *simTopo) publish(typ topoapi.EventType, o *topoapi.Object) {
	for w := range t.watchers {
		select {
		case w.ch <- topoapi.Event{Type: typ, Object: *cloneObject(o)}:
		default:
			panic("simtopo: watcher buffer overflow")
		}
	}
}

func (t *simTopo) Create(ctx context.Context, object *topoapi.Object) error {
	t.fuse.Gate("topo")
	t.mu.Lock()
	defer t.mu.Unlock()
	if t.dead() {
		return errors.NewInternal("crashed")
	}
	if _, ok := t.objects[object.ID]; ok {
		return errors.NewAlreadyExists("object '%s' already exists", object.ID)
	}
	if !t.fuse.Effect("topo create " + string(object.ID)) {
		return errors.NewInternal("crashed")
	}
	t.revision++
	t.effects++
	o := cloneObject(object)
	o.Revision = topoapi.Revision(t.revision)
	t.objects[o.ID] = o
	object.Revision = o.Revision
	t.publish(topoapi.EventType_ADDED, o)
	return nil
}

func (t *simTopo) Update(ctx context.Context, object *topoapi.Object) error {
	t.fuse.Gate("topo")
	t.mu.Lock()
	defer t.mu.Unlock()
	if t.dead() {
		return errors.NewInternal("crashed")
	}
	cur, ok := t.objects[object.ID]
	if !ok {
		return errors.NewNotFound("object '%s' not found", object.ID)
	}
	if object.Revision != 0 && object.Revision != cur.Revision {
		return errors.NewConflict("object '%s' revision mismatch", object.ID)
	}
	if !t.fuse.Effect("topo update " + string(object.ID)) {
		return errors.NewInternal("crashed")
	}
	t.revision++
	t.effects++
	o := cloneObject(object)
	o.Revision = topoapi.Revision(t.revision)
	t.objects[o.ID] = o
	t.publish(topoapi.EventType_UPDATED, o)
	return nil
}

func (t *simTopo) Get(ctx context.Context, id topoapi.ID) (*topoapi.Object, error) {
	t.fuse.Gate("topo-read")
	t.mu.Lock()
	defer t.mu.Unlock()
	if t.dead() {
		return nil, errors.NewInternal("crashed")
	}
	o, ok := t.objects[id]
	if !ok {
		return nil, errors.NewNotFound("object '%s' not found", id)
	}
	return cloneObject(o), nil
}

func (t *simTopo) sortedIDs() []topoapi.ID {
	ids := make([]topoapi.ID, 0, len(t.objects))
	for id := range t.objects {
		ids = append(ids, id)
	}
	sort.Slice(ids, func(i, j int) bool { return ids[i] < ids[j] })
	return ids
}

func matchFilters(o *topoapi.Object, f *topoapi.Filters) bool {
	if f == nil {
		return true
	}
	if rf := f.RelationFilter; rf != nil {
		// the only shape used by onos-config: relations of a kind from a source, relations only
		r := o.GetRelation()
		if r == nil {
			return false
		}
		if rf.RelationKind != "" && string(r.KindID) != rf.RelationKind {
			return false
		}
		if rf.SrcId != "" && string(r.SrcEntityID) != rf.SrcId {
			return false
		}
		return true
	}
	if len(f.ObjectTypes) > 0 {
		ok := false
		for _, ot := range f.ObjectTypes {
			if o.Type == ot {
				ok = true
			}
		}
		if !ok {
			return false
		}
	}
	for _, a := range f.WithAspects {
		if _, ok := o.Aspects[a]; !ok {
			return false
		}
	}
	return true
}

func (t *simTopo) List(ctx context.Context, filters *topoapi.Filters) ([]topoapi.Object, error) {
	t.fuse.Gate("topo-read")
	t.mu.Lock()
	defer t.mu.Unlock()
	if t.dead() {
		return nil, errors.NewInternal("crashed")
	}
	var out []topoapi.Object
	for _, id := range t.sortedIDs() {
		o := t.objects[id]
		if matchFilters(o, filters) {
			out = append(out, *cloneObject(o))
		}
	}
	return out, nil
}

func (t *simTopo) Delete(ctx context.Context, object *topoapi.Object) error {
	t.fuse.Gate("topo")
	t.mu.Lock()
	defer t.mu.Unlock()
	if t.dead() {
		return errors.NewInternal("crashed")
	}
	cur, ok := t.objects[object.ID]
	if !ok {
		return errors.NewNotFound("object '%s' not found", object.ID)
	}
	if object.Revision != 0 && object.Revision != cur.Revision {
		return errors.NewConflict("object '%s' revision mismatch", object.ID)
	}
	if !t.fuse.Effect("topo delete " + string(object.ID)) {
		return errors.NewInternal("crashed")
	}
	delete(t.objects, object.ID)
	t.effects++
	t.publish(topoapi.EventType_REMOVED, cur)
	return nil
}

// Watch replays the existing objects (Noreplay: false in the real store) and then relays events until ctx ends;
// like the real store it closes ch when the stream ends.
func (t *simTopo) Watch(ctx context.Context, ch chan<- topoapi.Event, filters *topoapi.Filters) error {
	t.mu.Lock()
	w := &simTopoWatcher{ch: make(chan topoapi.Event, 1<<12)}
	for _, id := range t.sortedIDs() {
		w.ch <- topoapi.Event{Type: topoapi.EventType_NONE, Object: *cloneObject(t.objects[id])}
	}
	t.watchers[w] = struct{}{}
	t.mu.Unlock()
	go func() {
		defer close(ch)
		defer func() {
			t.mu.Lock()
			delete(t.watchers, w)
			t.mu.Unlock()
		}()
		for {
			select {
			case ev := <-w.ch:
				if !matchFilters(&ev.Object, filters) {
					continue
				}
				select {
				case ch <- ev:
				case <-ctx.Done():
					return
				}
			case <-ctx.Done():
				return
			}
		}
	}()
	return nil
}

// snapshot / restore

type simTopoSnap struct {
	objects  map[topoapi.ID]*topoapi.Object
	revision uint64
}

func (t *simTopo) Snapshot() *simTopoSnap {
	t.mu.Lock()
	defer t.mu.Unlock()
	s := &simTopoSnap{objects: map[topoapi.ID]*topoapi.Object{}, revision: t.revision}
	for id, o := range t.objects {
		s.objects[id] = o // objects are replaced, never mutated in place
	}
	return s
}

func (t *simTopo) Restore(s *simTopoSnap) {
	t.mu.Lock()
	defer t.mu.Unlock()
	t.objects = map[topoapi.ID]*topoapi.Object{}
	for id, o := range s.objects {
		t.objects[id] = o
	}
	t.revision = s.revision
	t.effects = 0
}

// Canon renders the content without revisions.
func (t *simTopo) Canon() []string {
	t.mu.Lock()
	defer t.mu.Unlock()
	var out []string
	for _, id := range t.sortedIDs() {
		o := t.objects[id]
		if r := o.GetRelation(); r != nil {
			out = append(out, "rel "+string(id)+" "+string(r.SrcEntityID)+"->"+string(r.TgtEntityID))
		} else {
			out = append(out, "ent "+string(id))
		}
	}
	return out
}
