package mc

import (
	"context"
	"fmt"
	"sort"
	"strings"

	"github.com/onosproject/onos-config/pkg/utils"
	"github.com/openconfig/gnmi/proto/gnmi"
)

// C16, journey part (E3h): "the path a client names is the path that is stored, pushed to the device and reported
// back". Structured gNMI paths into the keyed lists of model mini, with key values over the escape-worthy alphabet,
// are set through the real handler; then, compared element by element and key by key (never through a textual form
// of the harness' own): the path in the SetResponse, the path in the device's SetRequest, the path Get (PROTO)
// returns the value under, and the stored textual path parsed back by the repository's own parser. Finally the same
// structured path deletes exactly that leaf. Key values the Set path refuses are counted, not judged (C13).

// c16Canon is an unambiguous rendering of a structured path (element names and sorted keys, Go-quoted).
func c16PathCanon(prefix, p *gnmi.Path) string {
	var b strings.Builder
	for _, pp := range []*gnmi.Path{prefix, p} {
		if pp == nil {
			continue
		}
		for _, e := range pp.Elem {
			fmt.Fprintf(&b, "/%q", e.Name)
			ks := make([]string, 0, len(e.Key))
			for k := range e.Key {
				ks = append(ks, k)
			}
			sort.Strings(ks)
			for _, k := range ks {
				fmt.Fprintf(&b, "[%q=%q]", k, e.Key[k])
			}
		}
	}
	return b.String()
}

var c16KeyValues = []string{"a", "ab", "a/b", "/", "a]b", "a[b", "[", "a=b", "a b", `a\b`, "a.b", "-", "m:a", "a]"}

func c16JourneyPaths() []*gnmi.Path {
	el := func(name string, kv ...string) *gnmi.PathElem {
		e := &gnmi.PathElem{Name: name}
		if len(kv) > 0 {
			e.Key = map[string]string{}
			for i := 0; i+1 < len(kv); i += 2 {
				e.Key[kv[i]] = kv[i+1]
			}
		}
		return e
	}
	var out []*gnmi.Path
	for _, v := range c16KeyValues {
		out = append(out, &gnmi.Path{Elem: []*gnmi.PathElem{el("cont"), el("list", "name", v), el("val")}})
		out = append(out, &gnmi.Path{Elem: []*gnmi.PathElem{el("cont"), el("list", "name", v), el("sub2"), el("x")}})
		for _, w := range []string{"a", "/", "a]b", "a=b"} {
			out = append(out, &gnmi.Path{Elem: []*gnmi.PathElem{el("cont"), el("l2", "k1", v, "k2", w), el("val")}})
		}
	}
	return out
}

func c16Journeys(rc *RunCtx, rep *Report) {
	hw := NewHistWorld(WorldConfig{Targets: []string{"T1"}}, true)
	w := hw.W
	// the target has a (now empty) configuration: a Get on it answers without error
	seed := mustPath("/cont/leafA")
	seed.Target = "T1"
	hw.ExecSet(context.Background(), &gnmi.SetRequest{Update: []*gnmi.Update{{Path: seed, Val: gstr("x")}}}, nil)
	hw.ExecSet(context.Background(), &gnmi.SetRequest{Delete: []*gnmi.Path{seed}}, nil)
	base := w.Snapshot()
	journeys, accepted, refused := 0, 0, 0
	only := ""
	if rc.Replay != "" {
		_ = loadReplay(rc.Replay, "journey", &only)
	}
	for _, p := range c16JourneyPaths() {
		want := c16PathCanon(nil, p)
		if only != "" && only != want {
			continue
		}
		// once with the whole path in the operation, once with the list entry in the request prefix
		for _, split := range []int{0, 2} {
			journeys++
			w.Restore(base)
			prefix := &gnmi.Path{Target: "T1", Elem: p.Elem[:split]}
			rel := &gnmi.Path{Elem: p.Elem[split:]}
			var val *gnmi.TypedValue
			if p.Elem[1].Name == "l2" {
				val = &gnmi.TypedValue{Value: &gnmi.TypedValue_IntVal{IntVal: 7}}
			} else {
				val = gstr("v")
			}
			req := &gnmi.SetRequest{Prefix: prefix, Update: []*gnmi.Update{{Path: rel, Val: val}}}
			res := hw.ExecSet(context.Background(), req, nil)
			what := fmt.Sprintf("Set of %s (prefix of %d elements)", want, split)
			replay := map[string]interface{}{"kind": "c16-journey", "journey": want}
			if !res.Done || len(res.Panics) > 0 || !res.Idle {
				rep.Violate("journey/set-not-answered", fmt.Sprintf("%s: done=%v panics=%v idle=%v", what, res.Done, res.Panics, res.Idle), replay)
				continue
			}
			if res.Err != nil {
				refused++
				if rc.Replay != "" || envInt("VERIF_DEBUG_C16", 0) > 0 {
					fmt.Printf("C16 journey refused: %s: %v\n", what, res.Err)
				}
				// a path the Set refuses must not get in through a delete either: whatever the answer, the target
				// stays readable and empty
				del := hw.ExecSet(context.Background(), &gnmi.SetRequest{Prefix: prefix, Delete: []*gnmi.Path{rel}}, nil)
				got, err := w.GetProto(GetQuery{Target: "T1"})
				if !del.Done || len(del.Panics) > 0 || err != nil || len(withoutKeyLeaves(got)) != 0 {
					rep.Violate("journey/refused-path-delete-disturbs-get", fmt.Sprintf("%s is refused (%v); a delete of the same path answers %v, afterwards Get returns %v (err %v, panics %v)", what, res.Err, del.Err, got, err, del.Panics), replay)
				}
				continue
			}
			accepted++
			fail := func(class, text string) { rep.Violate("journey/"+class, what+": "+text, replay) }
			// reported back
			if sr, ok := res.Resp.(*gnmi.SetResponse); !ok || len(sr.Response) != 1 || c16PathCanon(sr.Prefix, sr.Response[0].Path) != want {
				got := "<no response>"
				if ok && len(sr.Response) > 0 {
					got = c16PathCanon(sr.Prefix, sr.Response[0].Path)
				}
				fail("set-response-path", "the response names "+got)
			}
			// pushed to the device
			sent := []string{}
			for _, rq := range res.DevLog["T1"] {
				sent = append(sent, rq.RawUpdates...)
			}
			if len(sent) != 1 || sent[0] != want {
				fail("device-request-path", fmt.Sprintf("the southbound request names %v", sent))
			}
			// stored: the textual key parsed back by the repository's own functions
			v := w.View()
			cfg := v.CfgOf("T1")
			stored := []string{}
			if cfg != nil {
				for key, pv := range cfg.Values {
					if pv.Deleted || c18IsKeyLeaf(key) {
						continue
					}
					pp, err := utils.ParseGNMIElements(utils.SplitPath(key))
					if err != nil {
						stored = append(stored, "UNPARSABLE:"+key)
						continue
					}
					stored = append(stored, c16PathCanon(nil, pp))
				}
			}
			sort.Strings(stored)
			if len(stored) != 1 || stored[0] != want {
				fail("stored-path", fmt.Sprintf("the stored configuration names %v", stored))
			}
			// read back
			resp, err := w.gnmi.Get(context.Background(), &gnmi.GetRequest{Encoding: gnmi.Encoding_PROTO, Prefix: &gnmi.Path{Target: "T1"}})
			var read []string
			if err == nil {
				for _, n := range resp.Notification {
					for _, u := range n.Update {
						if u.Val != nil && !c18IsKeyLeaf(utils.StrPath(u.Path)) {
							read = append(read, c16PathCanon(n.Prefix, u.Path))
						}
					}
				}
			}
			if len(read) != 1 || read[0] != want {
				fail("get-path", fmt.Sprintf("Get returns %v (err %v)", read, err))
			}
			// the same structured path addresses the same leaf: deleting it leaves nothing
			del := hw.ExecSet(context.Background(), &gnmi.SetRequest{Prefix: prefix, Delete: []*gnmi.Path{rel}}, nil)
			if del.Err != nil || !del.Done {
				fail("delete-refused", fmt.Sprintf("the delete of the same path is refused: %v", del.Err))
				continue
			}
			after, _ := w.GetProto(GetQuery{Target: "T1"})
			left := []string{}
			for k := range after {
				if !c18IsKeyLeaf(k) {
					left = append(left, k)
				}
			}
			if len(left) != 0 || len(withoutKeyLeaves(w.devices["T1"].Content())) != 0 {
				fail("delete-misses", fmt.Sprintf("after deleting the same path Get still returns %v and the device holds %v", left, w.devices["T1"].Content()))
			}
		}
	}
	rep.Coverage["journeys"] = journeys
	rep.Coverage["journeys_accepted"] = accepted
	rep.Coverage["journeys_refused_by_set"] = refused
	rep.Coverage["journey_rule"] = fmt.Sprintf("structured paths into the keyed lists of model mini (one-key entry leaf, nested leaf, two-key entry leaf) with key values over %d strings incl. / ] [ = space backslash, each once whole and once with the list entry in the request prefix, through the real Set handler, stores, controllers and southbound client: SetResponse path = southbound request path = stored path (parsed back) = Get path = the path set, compared element by element; the same path then deletes exactly that leaf", len(c16KeyValues))
}
