package mc

import (
	"context"
	"fmt"
	"sort"
	"strconv"
	"strings"
	"sync"
	"testing/synctest"

	"google.golang.org/grpc/metadata"
)

// E2 – stateless exploration of thread interleavings under a cooperative scheduler.
//
// Threads are goroutines that call the real store API; every data RPC a thread issues to simatomix is a scheduling
// point: the RPC is held at the server until the scheduler grants it. Between two grants everything else (the
// granted RPC, the client code after it, the store's own goroutines, event delivery) runs to quiescence
// (synctest.Wait). An execution is determined by the sequence of choices; the explorer enumerates all choice
// sequences depth-first with a pre-emption bound (switching away from a thread that could continue costs one).

// E2Thread is one client of the system under test.
type E2Thread struct {
	Name string
	Body func(t *E2T)
}

// E2T is the handle a thread body works with.
type E2T struct {
	ID     int
	Name   string
	x      *E2Exec
	ctx    context.Context
	cancel context.CancelFunc
}

// Ctx is the context to use for calls into the system under test (it identifies the thread to the scheduler).
func (t *E2T) Ctx() context.Context { return t.ctx }

// NewCtx returns a separately cancellable context that still identifies the thread.
func (t *E2T) NewCtx() (context.Context, context.CancelFunc) {
	return context.WithCancel(t.ctx)
}

// Tick returns the next logical time stamp (for call/return histories).
func (t *E2T) Tick() int64 { return t.x.tick() }

type e2Wait struct {
	thread int
	seq    int64
	method string
	ch     chan struct{}
}

// E2Point is one scheduling point of an execution.
type E2Point struct {
	Enabled []int // canonical order: the running thread first if it is enabled, then ascending ids
	Methods []string
	Running bool // the previously running thread is still enabled
	Choice  int  // index into Enabled
}

// E2Exec is one execution.
type E2Exec struct {
	mu       sync.Mutex
	waiting  []*e2Wait // held callers (a thread may have several: its own call and calls of goroutines it started)
	over     bool
	free     bool
	seq      int64
	finished []bool
	panics   []string
	clock    int64
	Points   []E2Point
	threads  []*E2T
	Diverged string // non-empty: the prefix could not be replayed
}

func (x *E2Exec) tick() int64 {
	x.mu.Lock()
	defer x.mu.Unlock()
	x.clock++
	return x.clock
}

func (x *E2Exec) arrive(thread, method string) {
	id, err := strconv.Atoi(thread)
	if err != nil {
		return
	}
	x.mu.Lock()
	if x.over || x.free { // the execution is over (or runs free for the race detector): let callers through
		x.mu.Unlock()
		return
	}
	x.seq++
	w := &e2Wait{thread: id, seq: x.seq, method: method, ch: make(chan struct{})}
	x.waiting = append(x.waiting, w)
	x.mu.Unlock()
	<-w.ch
}

// Finished reports whether thread i ran to the end of its body.
func (x *E2Exec) Finished(i int) bool { x.mu.Lock(); defer x.mu.Unlock(); return x.finished[i] }

// Stuck lists the threads that did not finish.
func (x *E2Exec) Stuck() []string {
	x.mu.Lock()
	defer x.mu.Unlock()
	var l []string
	for i, f := range x.finished {
		if !f {
			l = append(l, x.threads[i].Name)
		}
	}
	return l
}

// Panics lists panics raised inside thread bodies.
func (x *E2Exec) Panics() []string {
	x.mu.Lock()
	defer x.mu.Unlock()
	return append([]string{}, x.panics...)
}

// Choices returns the choice sequence of the execution.
func (x *E2Exec) Choices() []int {
	c := make([]int, len(x.Points))
	for i, p := range x.Points {
		c[i] = p.Choice
	}
	return c
}

// ScheduleText renders the schedule as the sequence of granted (thread, method) pairs.
func (x *E2Exec) ScheduleText() string {
	var parts []string
	for _, p := range x.Points {
		m := p.Methods[p.Choice]
		if i := strings.LastIndex(m, "."); i >= 0 {
			m = m[i+1:]
		}
		parts = append(parts, fmt.Sprintf("%s:%s", x.threads[p.Enabled[p.Choice]].Name, m))
	}
	return strings.Join(parts, " ")
}

const e2MaxPoints = 400

// freeRunning switches the scheduler off (C15race): threads run as the Go scheduler lets them.
var freeRunning bool

// runE2 runs one execution: the choices of prefix, then choice 0 at every later point.
// setGate installs the scheduler's gate into the environment the threads talk to.
func runE2(threads []E2Thread, setGate func(func(thread, method string)), prefix []int) *E2Exec {
	x := &E2Exec{finished: make([]bool, len(threads))}
	setGate(x.arrive)
	x.free = prefix == nil && freeRunning
	for i, th := range threads {
		ctx, cancel := context.WithCancel(metadata.AppendToOutgoingContext(context.Background(), "verif-thread", strconv.Itoa(i)))
		x.threads = append(x.threads, &E2T{ID: i, Name: th.Name, x: x, ctx: ctx, cancel: cancel})
	}
	for i, th := range threads {
		i, th := i, th
		go func() {
			defer func() {
				if r := recover(); r != nil {
					x.mu.Lock()
					x.panics = append(x.panics, fmt.Sprintf("%s: %s (%s)", th.Name, notePanic(r), lastPanicSite))
					x.mu.Unlock()
				}
				x.mu.Lock()
				x.finished[i] = true
				x.mu.Unlock()
			}()
			th.Body(x.threads[i])
		}()
	}
	running := -1
	for len(x.Points) < e2MaxPoints {
		synctest.Wait()
		x.mu.Lock()
		// canonical order: the calls of the running thread first, then ascending thread ids; within a thread the
		// order of arrival (deterministic: arrivals of one thread are causally ordered or come from different
		// goroutines whose methods differ)
		ws := append([]*e2Wait{}, x.waiting...)
		sort.SliceStable(ws, func(a, b int) bool {
			ra, rb := ws[a].thread == running, ws[b].thread == running
			if ra != rb {
				return ra
			}
			if ws[a].thread != ws[b].thread {
				return ws[a].thread < ws[b].thread
			}
			if ws[a].method != ws[b].method {
				return ws[a].method < ws[b].method
			}
			return ws[a].seq < ws[b].seq
		})
		p := E2Point{}
		for _, w := range ws {
			if w.thread == running {
				p.Running = true
			}
			p.Enabled = append(p.Enabled, w.thread)
			p.Methods = append(p.Methods, w.method)
		}
		if len(p.Enabled) == 0 {
			x.mu.Unlock()
			break
		}
		if i := len(x.Points); i < len(prefix) {
			p.Choice = prefix[i]
			if p.Choice >= len(p.Enabled) {
				x.Diverged = fmt.Sprintf("point %d: choice %d of %d enabled calls", i, p.Choice, len(p.Enabled))
				x.mu.Unlock()
				break
			}
		}
		w := ws[p.Choice]
		id := w.thread
		for i, o := range x.waiting {
			if o == w {
				x.waiting = append(x.waiting[:i], x.waiting[i+1:]...)
				break
			}
		}
		x.Points = append(x.Points, p)
		x.mu.Unlock()
		running = id
		close(w.ch)
	}
	synctest.Wait()
	return x
}

// Close ends the execution: every thread context is cancelled and held RPCs are let through.
func (x *E2Exec) Close() {
	x.mu.Lock()
	for _, w := range x.waiting {
		close(w.ch)
	}
	x.waiting = nil
	x.over = true
	x.mu.Unlock()
	for _, t := range x.threads {
		t.cancel()
	}
	synctest.Wait()
}

func (x *E2Exec) preemptionsBefore(i int) int {
	n := 0
	for _, p := range x.Points[:i] {
		if p.Running && p.Choice != 0 {
			n++
		}
	}
	return n
}

// E2Stats counts what an exploration covered.
type E2Stats struct {
	Executions int
	Points     int
	MaxPoints  int
	Capped     bool
}

// exploreE2 enumerates all executions of a scenario within the pre-emption bound (bound < 0: unbounded).
// once runs one execution with the given prefix and evaluates it; it must build a fresh system every time.
func exploreE2(bound int, maxExec int, once func(prefix []int) *E2Exec, st *E2Stats) {
	var rec func(prefix []int)
	rec = func(prefix []int) {
		if maxExec > 0 && st.Executions >= maxExec {
			st.Capped = true
			return
		}
		x := once(prefix)
		st.Executions++
		st.Points += len(x.Points)
		if len(x.Points) > st.MaxPoints {
			st.MaxPoints = len(x.Points)
		}
		if x.Diverged != "" {
			panic("E2: schedule prefix did not replay: " + x.Diverged)
		}
		choices := x.Choices()
		for i := len(prefix); i < len(x.Points); i++ {
			p := x.Points[i]
			cost := x.preemptionsBefore(i)
			if p.Running {
				cost++
			}
			if bound >= 0 && cost > bound {
				continue
			}
			for alt := 1; alt < len(p.Enabled); alt++ {
				rec(append(append([]int{}, choices[:i]...), alt))
			}
		}
	}
	rec(nil)
}
