package mc

import (
	"fmt"
	"strings"
)

// iterOrder lives under a steered prefix only by name matching; for the self-test we steer this package too.
func detrtIterOrder(m map[string]int) string {
	var b strings.Builder
	for k := range m {
		b.WriteString(k)
	}
	return b.String()
}

func checkDetrtSelftest(rc *RunCtx) *Report {
	rep := newReport("other")
	detrtSetPrefix(7, "verif/mc.detrtIterOrder")
	m := map[string]int{"a": 1, "b": 2, "c": 3}
	var got []string
	for off := 0; off < 3; off++ {
		var s string
		sites := withMapOrder([]uint8{uint8(off)}, func() { s = detrtIterOrder(m) })
		got = append(got, s)
		if len(sites) != 1 || sites[0].Len != 3 {
			rep.HarnessErr = fmt.Sprintf("detrt: expected one steered iteration of 3 entries, got %+v", sites)
		}
	}
	big := map[int]int{}
	for i := 0; i < 200; i++ {
		big[i*7919%1000] = i
	}
	var order []string
	for k := range big {
		order = append(order, fmt.Sprint(k))
	}
	fmt.Printf("DETRT small=%v big=%s\n", got, strings.Join(order[:12], ","))
	if strings.Join(got, " ") != "abc bca cab" {
		rep.HarnessErr = fmt.Sprintf("detrt: rotations are %v, want [abc bca cab]", got)
	}
	rep.Coverage["explanation"] = "detrt self-test: steered rotations of a 3-entry map and the fixed order of a 200-entry map"
	return rep
}

func init() { register("detrt-selftest", checkDetrtSelftest) }
