package mc

import (
	"context"
	"fmt"
	"sort"
	"strings"

	"github.com/onosproject/onos-api/go/onos/config/admin"
	"github.com/openconfig/gnmi/proto/gnmi"
	"github.com/openconfig/gnmi/proto/gnmi_ext"
	"google.golang.org/grpc/codes"
	"google.golang.org/grpc/status"
)

// E3h – sequential histories: every request is run to idle under the default schedule (oldest token first).

const drainLimit = 5000

// ExecResult is the outcome of one northbound request run to idle.
type ExecResult struct {
	Done   bool // the handler returned
	Err    error
	Code   codes.Code
	Resp   interface{}
	Panic  string
	Steps  int
	Idle   bool // the token queue emptied within the step limit
	Sites  []MapSite
	Panics []string               // panics of reconcile steps
	Docs   map[string][]pluginDoc // documents the model plugins received, per target, in order
	DevLog map[string][]devReq    // requests the devices received, per target, in order
}

// HistWorld wraps a world that is kept at idle between requests.
type HistWorld struct {
	W *World
}

// NewHistWorld builds a world, optionally connects all devices, and drains it to idle.
func NewHistWorld(cfg WorldConfig, connect bool) *HistWorld {
	w := NewWorld(cfg)
	q := w.TakeTokens()
	_, q = w.Drain(q, drainLimit, nil)
	if connect {
		for _, t := range cfg.Targets {
			w.conns.SetReachable(topoID(t), true)
		}
		q = append(q, w.Settle()...)
		_, q = w.Drain(q, drainLimit, nil)
	}
	if len(q) != 0 {
		panic("world does not go idle")
	}
	return &HistWorld{W: w}
}

func (h *HistWorld) finishCall(c *Call, offs []uint8, run func() *Call) ExecResult {
	var res ExecResult
	var call *Call
	res.Sites = withMapOrder(offs, func() {
		call = run()
		q := h.W.Settle()
		var left []Token
		res.Steps, left = h.W.Drain(q, drainLimit, func(t Token, r StepResult) {
			if r.Panic != "" {
				res.Panics = append(res.Panics, fmt.Sprintf("%s %s: %s", t.Ctrl, t.ID, r.Panic))
			}
			for tg, d := range r.Docs {
				if res.Docs == nil {
					res.Docs = map[string][]pluginDoc{}
				}
				res.Docs[tg] = append(res.Docs[tg], d...)
			}
			for tg, d := range r.DevLog {
				if res.DevLog == nil {
					res.DevLog = map[string][]devReq{}
				}
				res.DevLog[tg] = append(res.DevLog[tg], d...)
			}
		})
		res.Idle = len(left) == 0
	})
	res.Done, res.Err, res.Resp, res.Panic = call.Done, call.Err, call.Resp, call.Panic
	if !call.Done {
		call.Cancel()
		h.W.Settle()
	}
	if res.Err != nil {
		res.Code = status.Code(res.Err)
	}
	return res
}

// ExecSet submits a Set and runs the world to idle. offs steers map iteration order (nil = default).
func (h *HistWorld) ExecSet(ctx context.Context, req *gnmi.SetRequest, offs []uint8) ExecResult {
	return h.finishCall(nil, offs, func() *Call { return h.W.GoSet(ctx, req) })
}

// ExecRollback submits a RollbackTransaction and runs the world to idle.
func (h *HistWorld) ExecRollback(ctx context.Context, index uint64, offs []uint8) ExecResult {
	return h.finishCall(nil, offs, func() *Call {
		return h.W.GoCall(ctx, func(ctx context.Context) (interface{}, error) {
			return h.W.admin.RollbackTransaction(ctx, &admin.RollbackRequest{Index: configIndex(index)})
		})
	})
}

// ---- Get helpers ----

// GetQuery describes one Get.
type GetQuery struct {
	Target     string `json:"target"`
	PrefixPath string `json:"prefix_path,omitempty"`
	Path       string `json:"path,omitempty"` // "" = no path (prefix only)
}

func (q GetQuery) full() string { return q.PrefixPath + q.Path }

func (q GetQuery) build(enc gnmi.Encoding) *gnmi.GetRequest {
	req := &gnmi.GetRequest{Encoding: enc, Prefix: &gnmi.Path{Target: q.Target}}
	if q.PrefixPath != "" {
		req.Prefix.Elem = mustPath(q.PrefixPath).Elem
	}
	if q.Path != "" {
		req.Path = []*gnmi.Path{mustPath(q.Path)}
	}
	return req
}

// normToJSONText maps the canonical gNMI value text to the text the JSON flattener produces for it.
func normToJSONText(n string) string {
	i := strings.Index(n, ":")
	kind, rest := n[:i], n[i+1:]
	switch kind {
	case "string":
		var s string
		fmt.Sscanf(rest, "%q", &s)
		return s
	}
	return rest
}

// GetProto runs a PROTO Get and returns absolute path -> canonical value text.
func (w *World) GetProto(q GetQuery) (map[string]string, error) {
	resp, err := w.gnmi.Get(context.Background(), q.build(gnmi.Encoding_PROTO))
	if err != nil {
		return nil, err
	}
	out := map[string]string{}
	for _, n := range resp.Notification {
		for _, u := range n.Update {
			if u.Val == nil {
				continue
			}
			out[strPathAbs(u.Path)] = c17Norm(u.Val)
		}
	}
	return out, nil
}

// GetJSON runs a JSON Get and returns absolute path -> JSON scalar text (key leaves removed).
func (w *World) GetJSON(q GetQuery) (map[string]string, []string, error) {
	resp, err := w.gnmi.Get(context.Background(), q.build(gnmi.Encoding_JSON))
	if err != nil {
		return nil, nil, err
	}
	out := map[string]string{}
	var problems []string
	for _, n := range resp.Notification {
		for _, u := range n.Update {
			if u.Val == nil {
				continue
			}
			flat, probs, err := flattenMiniDoc(u.Val.GetJsonVal())
			if err != nil {
				return nil, nil, fmt.Errorf("unparsable JSON in Get response: %v", err)
			}
			problems = append(problems, probs...)
			for p, v := range flat {
				out[p] = v
			}
		}
	}
	return out, problems, nil
}

func withoutKeyLeaves(m map[string]string) map[string]string {
	out := map[string]string{}
	for p, v := range m {
		if !c18IsKeyLeaf(p) {
			out[p] = v
		}
	}
	return out
}

// syncExt is the extension asking for a synchronous Set.
func syncExt() *gnmi_ext.Extension {
	return transactionStrategyExt(true)
}

func sortedKeys(m map[string]refCfg) []string {
	ks := make([]string, 0, len(m))
	for k := range m {
		ks = append(ks, k)
	}
	sort.Strings(ks)
	return ks
}
