package mc

import (
	"context"
	"fmt"
	"os"
	"sort"
	"strings"
	"sync"
	"testing/synctest"
	"time"

	"github.com/anishathalye/porcupine"
	"github.com/onosproject/onos-lib-go/pkg/errors"
)

// C15 – stores never lose an update; watchers never miss the latest state.
//
// Engine E2: 2-3 client threads call the real store (v2 transaction / proposal / configuration, v3 transaction /
// configuration) over simatomix; every data RPC is a scheduling point; all interleavings within a pre-emption bound
// are executed, each on a fresh store. Oracles per execution:
//   - the recorded call/return history of get / create / update / update-status is linearizable with respect to a
//     per-key compare-and-set register (porcupine): an update succeeds iff the version it read is still current;
//   - versions only grow, log indexes are unique and grow in real-time order;
//   - every thread finishes (no operation hangs);
//   - at quiescence every live watcher's last observation of each record it is entitled to equals the record's
//     final state; a replay shows every record that existed when the watch call returned;
//   - after the execution (with cancelled and abandoned watchers left behind) a probe update is still delivered
//     to a fresh watcher and to the surviving ones: cancelling a watch does not disturb anybody else.

type c15Op struct {
	Thread   string `json:"thread"`
	Kind     string `json:"kind"` // get | create | update | status
	Key      string `json:"key"`
	Expected uint64 `json:"expected_version,omitempty"`
	Arg      string `json:"arg,omitempty"`
	OK       bool   `json:"ok"`
	Err      string `json:"err,omitempty"`
	Found    bool   `json:"found,omitempty"`
	Version  uint64 `json:"version,omitempty"`
	Index    uint64 `json:"index,omitempty"`
	Payload  string `json:"payload,omitempty"`
	Status   string `json:"status,omitempty"`
	Call     int64  `json:"call"`
	Ret      int64  `json:"ret"`
	// Loose: the record and its values live in different primitives and are read one after the other; a get that
	// runs concurrently with a writer is only held to the record part (the statement is about updates, not about
	// the atomicity of reads); the final gets at quiescence are strict
	Loose bool `json:"loose,omitempty"`
}

type c15Watcher struct {
	Name     string
	Replay   bool
	Key      string
	Since    int64 // logical time at which Watch returned
	Seen     []c15Rec
	Closed   bool
	Live     bool // still reading and not cancelled at the end
	WatchErr string
}

// c15Env is the system of one execution.
type c15Env struct {
	at       *simAtomix
	st       c15Store
	mu       sync.Mutex
	ops      []c15Op
	watchers []*c15Watcher
	initial  map[string]c15Rec
}

func (e *c15Env) record(op c15Op) {
	e.mu.Lock()
	e.ops = append(e.ops, op)
	e.mu.Unlock()
}

func errKind(err error) string {
	switch {
	case err == nil:
		return ""
	case errors.IsConflict(err):
		return "conflict"
	case errors.IsNotFound(err):
		return "notfound"
	case errors.IsAlreadyExists(err):
		return "exists"
	case errors.IsCanceled(err):
		return "canceled"
	}
	return "error: " + err.Error()
}

// ---- thread building blocks ----

type c15Local struct {
	t    *E2T
	e    *c15Env
	last map[string]c15Rec
}

func (l *c15Local) get(key string) {
	op := c15Op{Thread: l.t.Name, Kind: "get", Key: key, Call: l.t.Tick()}
	r, err := l.e.st.Get(l.t.Ctx(), key)
	op.Ret = l.t.Tick()
	op.Err = errKind(err)
	op.Loose = strings.Contains(l.e.st.Name(), "configuration")
	if err == nil {
		op.OK, op.Found, op.Version, op.Index, op.Payload, op.Status = true, true, r.Version, r.Index, r.Payload, r.Status
		l.last[key] = r
	} else if op.Err == "notfound" {
		op.OK = true
	}
	l.e.record(op)
}

func (l *c15Local) create(key string, payload int) {
	op := c15Op{Thread: l.t.Name, Kind: "create", Key: key, Arg: fmt.Sprint(payload), Call: l.t.Tick()}
	r, err := l.e.st.Create(l.t.Ctx(), key, payload)
	op.Ret = l.t.Tick()
	op.Err = errKind(err)
	if err == nil {
		op.OK, op.Version, op.Index, op.Payload = true, r.Version, r.Index, r.Payload
		l.last[key] = r
	}
	l.e.record(op)
}

func (l *c15Local) update(key string, payload int, status bool) {
	r, ok := l.last[key]
	if !ok {
		return
	}
	op := c15Op{Thread: l.t.Name, Kind: "update", Key: key, Expected: r.Version, Arg: fmt.Sprint(payload), Call: l.t.Tick()}
	var n c15Rec
	var err error
	if status {
		op.Kind = "status"
		n, err = l.e.st.UpdateStatus(l.t.Ctx(), r, payload)
	} else {
		n, err = l.e.st.Update(l.t.Ctx(), r, payload)
	}
	op.Ret = l.t.Tick()
	op.Err = errKind(err)
	if err == nil {
		op.OK, op.Version, op.Index, op.Payload, op.Status = true, n.Version, n.Index, n.Payload, n.Status
		l.last[key] = n
	}
	l.e.record(op)
}

// watch subscribes and starts a reader. limit < 0: read until the channel closes; limit >= 0: read that many events,
// then stop reading (abandon the channel, as a handler does once it has its answer).
func (l *c15Local) watch(ctx context.Context, name string, replay bool, key string, limit int) *c15Watcher {
	w := &c15Watcher{Name: name, Replay: replay, Key: key}
	l.e.mu.Lock()
	l.e.watchers = append(l.e.watchers, w)
	l.e.mu.Unlock()
	next, err := l.e.st.Watch(ctx, replay, key)
	w.Since = l.t.Tick()
	if err != nil {
		w.WatchErr = err.Error()
		return w
	}
	w.Live = limit < 0
	done := make(chan struct{})
	go func() {
		defer close(done)
		for n := 0; limit < 0 || n < limit; n++ {
			r, ok := next()
			if !ok {
				l.e.mu.Lock()
				w.Closed = true
				l.e.mu.Unlock()
				return
			}
			l.e.mu.Lock()
			w.Seen = append(w.Seen, r)
			l.e.mu.Unlock()
		}
	}()
	if limit >= 0 {
		<-done // the thread goes on once it has read its events
	}
	return w
}

// watchLate subscribes like watch(..., -1) but its reader takes the first event only after the thread's next
// scheduling point: a slow consumer. Whatever was written in between must still be shown to it.
func (l *c15Local) watchLate(ctx context.Context, name string, replay bool, key string) *c15Watcher {
	w := &c15Watcher{Name: name, Replay: replay, Key: key}
	l.e.mu.Lock()
	l.e.watchers = append(l.e.watchers, w)
	l.e.mu.Unlock()
	next, err := l.e.st.Watch(ctx, replay, key)
	w.Since = l.t.Tick()
	if err != nil {
		w.WatchErr = err.Error()
		return w
	}
	w.Live = true
	l.yield()
	go func() {
		for {
			r, ok := next()
			if !ok {
				l.e.mu.Lock()
				w.Closed = true
				l.e.mu.Unlock()
				return
			}
			l.e.mu.Lock()
			w.Seen = append(w.Seen, r)
			l.e.mu.Unlock()
		}
	}()
	return w
}

// yield is a scheduling point without an RPC.
func (l *c15Local) yield() { l.t.x.arrive(fmt.Sprint(l.t.ID), "yield") }

// ---- scenarios ----

type c15Scenario struct {
	Name    string
	Keys    []string // records created before the threads start
	Threads func(e *c15Env) []E2Thread
}

func c15Scenarios(thorough bool) []c15Scenario {
	mk := func(e *c15Env, name string, body func(l *c15Local)) E2Thread {
		return E2Thread{Name: name, Body: func(t *E2T) { body(&c15Local{t: t, e: e, last: map[string]c15Rec{}}) }}
	}
	scs := []c15Scenario{
		{Name: "two read-modify-write updaters and a reader", Keys: []string{"k"}, Threads: func(e *c15Env) []E2Thread {
			return []E2Thread{
				mk(e, "W1", func(l *c15Local) { l.get("k"); l.update("k", 1, false) }),
				mk(e, "W2", func(l *c15Local) { l.get("k"); l.update("k", 2, false) }),
				mk(e, "R", func(l *c15Local) { l.get("k"); l.get("k") }),
			}
		}},
		{Name: "update against update-status", Keys: []string{"k"}, Threads: func(e *c15Env) []E2Thread {
			return []E2Thread{
				mk(e, "W1", func(l *c15Local) { l.get("k"); l.update("k", 1, false); l.get("k") }),
				mk(e, "W2", func(l *c15Local) { l.get("k"); l.update("k", 7, true); l.get("k") }),
			}
		}},
		{Name: "two read-modify-write status updaters", Keys: []string{"k"}, Threads: func(e *c15Env) []E2Thread {
			return []E2Thread{
				mk(e, "W1", func(l *c15Local) { l.get("k"); l.update("k", 1, true); l.get("k") }),
				mk(e, "W2", func(l *c15Local) { l.get("k"); l.update("k", 2, true) }),
			}
		}},
		{Name: "creators of the same and of different keys", Keys: []string{"k"}, Threads: func(e *c15Env) []E2Thread {
			return []E2Thread{
				mk(e, "C1", func(l *c15Local) { l.create("a", 1); l.get("a") }),
				mk(e, "C2", func(l *c15Local) { l.create("b", 2); l.create("a", 3) }),
				mk(e, "C3", func(l *c15Local) { l.create("c", 4) }),
			}
		}},
		{Name: "replaying watcher of all records against a writer", Keys: []string{"k"}, Threads: func(e *c15Env) []E2Thread {
			return []E2Thread{
				mk(e, "Wa", func(l *c15Local) { l.watch(l.t.Ctx(), "Wa", true, "", -1) }),
				mk(e, "W1", func(l *c15Local) { l.get("k"); l.update("k", 1, false); l.create("n", 5); l.update("n", 6, true) }),
			}
		}},
		{Name: "replaying watcher of one record against two writers", Keys: []string{"k", "o"}, Threads: func(e *c15Env) []E2Thread {
			return []E2Thread{
				mk(e, "Wk", func(l *c15Local) { l.watch(l.t.Ctx(), "Wk", true, "k", -1) }),
				mk(e, "W1", func(l *c15Local) { l.get("k"); l.update("k", 1, false); l.update("k", 2, true) }),
				mk(e, "W2", func(l *c15Local) { l.get("o"); l.update("o", 3, false) }),
			}
		}},
		{Name: "watchers without replay (all records, one record) against a writer", Keys: []string{"k"}, Threads: func(e *c15Env) []E2Thread {
			return []E2Thread{
				mk(e, "Wa", func(l *c15Local) { l.yield(); l.watch(l.t.Ctx(), "Wa", false, "", -1) }),
				mk(e, "Wk", func(l *c15Local) { l.yield(); l.watch(l.t.Ctx(), "Wk", false, "k", -1) }),
				mk(e, "W1", func(l *c15Local) { l.get("k"); l.update("k", 1, false); l.update("k", 2, true) }),
			}
		}},
		{Name: "a watcher that stops reading and is then cancelled, a surviving watcher, a writer", Keys: []string{"k"}, Threads: func(e *c15Env) []E2Thread {
			return []E2Thread{
				mk(e, "Wx", func(l *c15Local) {
					ctx, cancel := l.t.NewCtx()
					l.watch(ctx, "Wx", true, "k", 1) // like a request handler: replay, first answer, gone
					l.yield()
					cancel()
				}),
				mk(e, "Wa", func(l *c15Local) { l.watch(l.t.Ctx(), "Wa", true, "", -1) }),
				mk(e, "W1", func(l *c15Local) {
					l.get("k")
					l.update("k", 1, false)
					l.update("k", 2, true)
					l.update("k", 3, false)
				}),
			}
		}},
		{Name: "a reading watcher of all records that is cancelled, a surviving watcher, a writer", Keys: []string{"k"}, Threads: func(e *c15Env) []E2Thread {
			return []E2Thread{
				mk(e, "Wx", func(l *c15Local) {
					ctx, cancel := l.t.NewCtx()
					w := l.watch(ctx, "Wx", true, "", -1)
					l.yield()
					cancel()
					l.e.mu.Lock()
					w.Live = false
					l.e.mu.Unlock()
				}),
				mk(e, "Wa", func(l *c15Local) { l.watch(l.t.Ctx(), "Wa", false, "", -1) }),
				mk(e, "W1", func(l *c15Local) { l.get("k"); l.update("k", 1, false); l.update("k", 2, true) }),
			}
		}},
	}
	scs = append(scs, c15Scenario{Name: "a replaying watcher of all records that reads one record and is then cancelled, a surviving watcher, a writer", Keys: []string{"k", "o"}, Threads: func(e *c15Env) []E2Thread {
		return []E2Thread{
			mk(e, "Wx", func(l *c15Local) {
				ctx, cancel := l.t.NewCtx()
				l.watch(ctx, "Wx", true, "", 1)
				l.yield()
				cancel()
			}),
			mk(e, "Wa", func(l *c15Local) { l.watch(l.t.Ctx(), "Wa", true, "", -1) }),
			mk(e, "W1", func(l *c15Local) { l.get("k"); l.update("k", 1, false); l.update("k", 2, true) }),
		}
	}})
	scs = append(scs, c15Scenario{Name: "a slow watcher of all records (starts reading late), a prompt watcher of one existing record, a writer of two records", Keys: []string{"k"}, Threads: func(e *c15Env) []E2Thread {
		return []E2Thread{
			mk(e, "Ws", func(l *c15Local) { l.yield(); l.watchLate(l.t.Ctx(), "Ws", false, "") }),
			mk(e, "Wk", func(l *c15Local) { l.watch(l.t.Ctx(), "Wk", true, "k", -1) }),
			mk(e, "W1", func(l *c15Local) { l.get("k"); l.update("k", 1, false); l.create("n", 5); l.update("n", 6, true) }),
		}
	}})
	if thorough {
		scs = append(scs, c15Scenario{Name: "three read-modify-write updaters (update, update-status, update)", Keys: []string{"k"}, Threads: func(e *c15Env) []E2Thread {
			return []E2Thread{
				mk(e, "W1", func(l *c15Local) { l.get("k"); l.update("k", 1, false); l.get("k") }),
				mk(e, "W2", func(l *c15Local) { l.get("k"); l.update("k", 2, true); l.get("k") }),
				mk(e, "W3", func(l *c15Local) { l.get("k"); l.update("k", 3, false) }),
			}
		}})
	}
	return scs
}

// ---- the compare-and-set register model ----

type c15State struct {
	Exists  bool
	Version uint64
	Payload string
	Status  string
}

func c15Model(initial map[string]c15Rec) porcupine.Model {
	return porcupine.Model{
		Partition: func(history []porcupine.Operation) [][]porcupine.Operation {
			by := map[string][]porcupine.Operation{}
			var keys []string
			for _, o := range history {
				k := o.Input.(c15Op).Key
				if _, ok := by[k]; !ok {
					keys = append(keys, k)
				}
				by[k] = append(by[k], o)
			}
			sort.Strings(keys)
			var out [][]porcupine.Operation
			for _, k := range keys {
				out = append(out, by[k])
			}
			return out
		},
		Init: func() interface{} { return c15State{} },
		Step: func(state, input, output interface{}) (bool, interface{}) {
			s := state.(c15State)
			in := input.(c15Op)
			o := output.(c15Op)
			if !s.Exists && s.Version == 0 {
				// the first operation on a key starts from the record created before the threads ran
				if r, ok := initial[in.Key]; ok {
					s = c15State{Exists: true, Version: r.Version, Payload: r.Payload, Status: r.Status}
				} else {
					s = c15State{Version: 1} // marks "initialised, absent" (versions of real records are larger)
				}
			}
			if in.Kind != "get" && !o.OK && o.Err == "conflict" {
				// a write may always be refused with a conflict (contention on the stored values makes the
				// composite stores do that even when the record version still matches); it must then have
				// changed nothing, which the following reads and the final state decide
				return true, s
			}
			switch in.Kind {
			case "get":
				if !s.Exists {
					return !o.Found && o.OK, s
				}
				if o.Loose {
					return o.Found && o.Version == s.Version && c15RecordPart(o.Payload) == c15RecordPart(s.Payload) && c15RecordPart(o.Status) == c15RecordPart(s.Status), s
				}
				return o.Found && o.Version == s.Version && o.Payload == s.Payload && o.Status == s.Status, s
			case "create":
				if s.Exists {
					return !o.OK, s
				}
				if !o.OK || o.Version <= s.Version {
					return false, s
				}
				return true, c15State{Exists: true, Version: o.Version, Payload: o.Payload, Status: ""}
			case "update", "status":
				if !s.Exists || s.Version != in.Expected {
					return !o.OK, s
				}
				if !o.OK || o.Version <= s.Version {
					return false, s
				}
				n := s
				n.Version = o.Version
				if in.Kind == "update" {
					n.Payload = o.Payload
				} else {
					n.Status = o.Status
				}
				return true, n
			}
			return false, s
		},
		Equal: func(a, b interface{}) bool { return a.(c15State) == b.(c15State) },
	}
}

func c15RecordPart(p string) string {
	if i := strings.Index(p, "/"); i >= 0 {
		p = p[:i]
	}
	if p == "0" {
		return "" // the record part of a status nobody has written yet
	}
	return p
}

// ---- oracle ----

func c15OpText(o c15Op) string {
	res := "ok"
	if !o.OK {
		res = "fails(" + o.Err + ")"
	}
	switch o.Kind {
	case "get":
		if o.Found {
			return fmt.Sprintf("%s get %s -> v%d payload=%s status=%s [%d,%d]", o.Thread, o.Key, o.Version, o.Payload, o.Status, o.Call, o.Ret)
		}
		return fmt.Sprintf("%s get %s -> %s [%d,%d]", o.Thread, o.Key, o.Err, o.Call, o.Ret)
	case "create":
		return fmt.Sprintf("%s create %s(%s) -> %s v%d index %d [%d,%d]", o.Thread, o.Key, o.Arg, res, o.Version, o.Index, o.Call, o.Ret)
	}
	return fmt.Sprintf("%s %s %s(%s) expecting v%d -> %s v%d [%d,%d]", o.Thread, o.Kind, o.Key, o.Arg, o.Expected, res, o.Version, o.Call, o.Ret)
}

// c15Check evaluates one finished execution. It returns class and text of every problem found, at most one per
// oracle group (liveness; versions and indexes; register semantics; listing; watchers), so that a known finding of
// one group does not hide a problem of another.
func c15Check(e *c15Env, x *E2Exec, sc c15Scenario) (out [][2]string) {
	group := func(f func() (string, string)) {
		if cl, what := f(); cl != "" {
			out = append(out, [2]string{cl, what})
		}
	}
	name := e.st.Name()
	var ops []c15Op
	var lines []string
	var hist string
	final := map[string]c15Rec{}
	group(func() (string, string) {
		if p := x.Panics(); len(p) > 0 {
			return name + "/panic", strings.Join(p, "; ")
		}
		if stuck := x.Stuck(); len(stuck) > 0 {
			return name + "/operation-never-returns", fmt.Sprintf("threads %v never finish", stuck)
		}
		e.mu.Lock()
		ops = append([]c15Op{}, e.ops...)
		e.mu.Unlock()
		for _, o := range ops {
			lines = append(lines, c15OpText(o))
			if strings.HasPrefix(o.Err, "error") {
				return name + "/unexpected-error", c15OpText(o)
			}
		}
		hist = strings.Join(lines, "; ")
		return "", ""
	})
	if len(out) > 0 {
		return out
	}
	// versions grow along every thread's successful writes; indexes unique and growing in real-time order
	group(func() (string, string) {
		var creates []c15Op
		for _, o := range ops {
			if o.Kind == "create" && o.OK {
				creates = append(creates, o)
			}
			if (o.Kind == "update" || o.Kind == "status") && o.OK && o.Version <= o.Expected {
				return name + "/version-does-not-grow", c15OpText(o)
			}
		}
		if e.st.Logged() {
			for i, a := range creates {
				if a.Index == 0 {
					return name + "/no-log-index", c15OpText(a)
				}
				for _, r := range e.initial {
					if r.Index == a.Index {
						return name + "/log-index-reused", c15OpText(a) + " reuses the index of " + r.Key
					}
				}
				for _, b := range creates[i+1:] {
					if a.Index == b.Index {
						return name + "/log-index-reused", c15OpText(a) + " and " + c15OpText(b)
					}
					if a.Ret < b.Call && a.Index > b.Index || b.Ret < a.Call && b.Index > a.Index {
						return name + "/log-index-not-in-order", c15OpText(a) + " and " + c15OpText(b)
					}
				}
			}
		}
		return "", ""
	})
	// the final state, read at quiescence, takes part in the history (strictly)
	group(func() (string, string) {
		var keys []string
		seenKey := map[string]bool{}
		for k := range e.initial {
			keys = append(keys, k)
			seenKey[k] = true
		}
		for _, o := range ops {
			if !seenKey[o.Key] {
				seenKey[o.Key] = true
				keys = append(keys, o.Key)
			}
		}
		sort.Strings(keys)
		clock := int64(1 << 40)
		for _, k := range keys {
			op := c15Op{Thread: "final", Kind: "get", Key: k, Call: clock}
			r, err := e.st.Get(context.Background(), k)
			op.Ret = clock + 1
			clock += 2
			op.Err = errKind(err)
			if err == nil {
				op.OK, op.Found, op.Version, op.Index, op.Payload, op.Status = true, true, r.Version, r.Index, r.Payload, r.Status
			} else if op.Err == "notfound" {
				op.OK = true
			}
			ops = append(ops, op)
			lines = append(lines, c15OpText(op))
		}
		hist = strings.Join(lines, "; ")
		// a record whose two parts disagree at quiescence: the values of a write that failed are still there
		for _, o := range ops {
			if o.Thread != "final" || !o.Found {
				continue
			}
			for _, part := range []string{o.Payload, o.Status} {
				i := strings.Index(part, "/")
				if i < 0 || part[:i] == part[i+1:] {
					continue
				}
				for _, w := range ops {
					if w.Key == o.Key && !w.OK && w.Kind != "get" && w.Arg == part[i+1:] {
						return name + "/values-of-a-failed-write-persist/" + w.Kind, fmt.Sprintf("%s failed, yet at quiescence record %s reads payload=%s status=%s (record part / stored values); history: %s", c15OpText(w), o.Key, o.Payload, o.Status, hist)
					}
				}
			}
		}
		// linearizability against the compare-and-set register
		var pops []porcupine.Operation
		for _, o := range ops {
			pops = append(pops, porcupine.Operation{ClientId: 0, Input: o, Call: o.Call, Output: o, Return: o.Ret})
		}
		if res := porcupine.CheckOperationsTimeout(c15Model(e.initial), pops, 20*time.Second); res == porcupine.Illegal {
			kinds := map[string]bool{}
			for _, o := range ops {
				if o.Kind != "get" {
					kinds[o.Kind] = true
				}
			}
			var ks []string
			for k := range kinds {
				ks = append(ks, k)
			}
			sort.Strings(ks)
			return name + "/not-linearizable/" + strings.Join(ks, "+"), "no order of these operations is consistent with a compare-and-set register: " + hist
		}
		return "", ""
	})
	// final state
	group(func() (string, string) {
		l, err := e.st.List(context.Background())
		if err != nil {
			return name + "/list-fails", err.Error()
		}
		for _, r := range l {
			final[r.Key] = r
		}
		for _, o := range ops {
			if o.Kind == "create" && o.OK {
				if _, ok := final[o.Key]; !ok {
					return name + "/created-record-not-listed", c15OpText(o) + "; list has " + fmt.Sprint(len(final)) + " records"
				}
			}
		}
		return "", ""
	})
	// watchers
	group(func() (string, string) {
		synctest.Wait()
		e.mu.Lock()
		defer e.mu.Unlock()
		for _, w := range e.watchers {
			if w.WatchErr != "" {
				return name + "/watch-fails", w.Name + ": " + w.WatchErr
			}
			if !w.Live {
				continue
			}
			if w.Closed {
				return name + "/watch-channel-closed-without-cancel", w.Name
			}
			last := map[string]c15Rec{}
			for _, r := range w.Seen {
				last[r.Key] = r
			}
			for key, f := range final {
				if w.Key != "" && w.Key != key {
					continue
				}
				entitled := w.Replay
				if !entitled {
					// without replay: records written after the watch call returned
					for _, o := range ops {
						if o.Key == key && o.Kind != "get" && o.OK && o.Call > w.Since {
							entitled = true
						}
					}
				}
				if !entitled {
					continue
				}
				got, ok := last[key]
				kind := "replay"
				if !w.Replay {
					kind = "no-replay"
				}
				scope := "all"
				if w.Key != "" {
					scope = "one"
				}
				if !ok {
					return fmt.Sprintf("%s/watcher-misses-record/%s/%s", name, kind, scope), fmt.Sprintf("watcher %s never saw record %s (final v%d); history: %s", w.Name, key, f.Version, hist)
				}
				if got.Version != f.Version || got.Payload != f.Payload || got.Status != f.Status {
					return fmt.Sprintf("%s/watcher-misses-latest-state/%s/%s", name, kind, scope), fmt.Sprintf("watcher %s last saw %s v%d payload=%s status=%s, the record is at v%d payload=%s status=%s; history: %s",
						w.Name, key, got.Version, got.Payload, got.Status, f.Version, f.Payload, f.Status, hist)
				}
			}
			for k := range last {
				if w.Key != "" && k != w.Key {
					return name + "/watcher-of-one-record-sees-another", fmt.Sprintf("%s watches %s and was shown %s", w.Name, w.Key, k)
				}
			}
		}
		return "", ""
	})
	return out
}

// c15Probe: after the execution, with its cancelled and abandoned watchers left behind, a further update must
// still reach a fresh watcher and the live ones.
func c15Probe(e *c15Env, sc c15Scenario) (string, string) {
	name := e.st.Name()
	ctx, cancel := context.WithCancel(context.Background())
	defer cancel()
	next, err := e.st.Watch(ctx, false, "")
	if err != nil {
		return name + "/disturbed/watch-fails", err.Error()
	}
	var seen []c15Rec
	var mu sync.Mutex
	go func() {
		for {
			r, ok := next()
			if !ok {
				return
			}
			mu.Lock()
			seen = append(seen, r)
			mu.Unlock()
		}
	}()
	synctest.Wait()
	type res struct {
		r   c15Rec
		err error
	}
	done := make(chan res, 1)
	go func() {
		r, err := e.st.Get(context.Background(), sc.Keys[0])
		if err == nil {
			r, err = e.st.Update(context.Background(), r, 99)
		}
		done <- res{r, err}
	}()
	synctest.Wait()
	var out res
	select {
	case out = <-done:
	default:
		return name + "/disturbed/update-never-returns", "a Get+Update after the execution does not return"
	}
	if out.err != nil {
		return name + "/disturbed/update-fails", out.err.Error()
	}
	synctest.Wait()
	mu.Lock()
	ok := false
	for _, r := range seen {
		if r.Key == sc.Keys[0] && r.Version == out.r.Version {
			ok = true
		}
	}
	mu.Unlock()
	if !ok {
		return name + "/disturbed/events-no-longer-delivered", fmt.Sprintf("a fresh watcher is not shown the update of %s to v%d made after the execution", sc.Keys[0], out.r.Version)
	}
	e.mu.Lock()
	defer e.mu.Unlock()
	for _, w := range e.watchers {
		if !w.Live || (w.Key != "" && w.Key != sc.Keys[0]) {
			continue
		}
		found := false
		for _, r := range w.Seen {
			if r.Key == sc.Keys[0] && r.Version == out.r.Version {
				found = true
			}
		}
		if !found {
			return name + "/disturbed/surviving-watcher-starved", fmt.Sprintf("watcher %s is not shown the update of %s to v%d made after the execution", w.Name, sc.Keys[0], out.r.Version)
		}
	}
	return "", ""
}

func c15Run(storeIdx int, sc c15Scenario, prefix []int) (*c15Env, *E2Exec, [][2]string) {
	at := newSimAtomix(nil)
	st, err := c15NewStore(storeIdx, at)
	if err != nil {
		panic(err)
	}
	e := &c15Env{at: at, st: st, initial: map[string]c15Rec{}}
	for i, k := range sc.Keys {
		r, err := st.Create(context.Background(), k, 100+i)
		if err != nil {
			panic(fmt.Sprintf("setup create %s: %v", k, err))
		}
		e.initial[k] = r
		if v3, ok := st.(c15TxV3); ok {
			v3.idx[k] = r.Index
		}
	}
	synctest.Wait()
	x := runE2(sc.Threads(e), func(g func(thread, method string)) { at.rpcGate = g }, prefix)
	var probs [][2]string
	if x.Diverged == "" {
		probs = c15Check(e, x, sc)
		if len(x.Stuck()) == 0 && len(x.Panics()) == 0 {
			if cl, what := c15Probe(e, sc); cl != "" {
				probs = append(probs, [2]string{cl, what})
			}
		}
	}
	x.Close()
	at.Stop()
	return e, x, probs
}

func checkC15(rc *RunCtx) *Report {
	rep := newReport("model_checking")
	scs := c15Scenarios(rc.Thorough())
	bound := 2
	if rc.Thorough() {
		bound = 3
	}
	bound = envInt("VERIF_C15_BOUND", bound)
	type job struct{ store, sc int }
	var jobs []job
	for s := range c15StoreNames {
		for i := range scs {
			jobs = append(jobs, job{s, i})
		}
	}
	if rc.Replay != "" {
		var store int
		var scenario string
		var choices []int
		for k, v := range map[string]interface{}{"store": &store, "scenario": &scenario, "choices": &choices} {
			if err := loadReplay(rc.Replay, k, v); err != nil {
				rep.HarnessErr = err.Error()
				return rep
			}
		}
		for _, sc := range scs {
			if sc.Name == scenario {
				verdicts := []string{}
				for i := 0; i < 2; i++ { // twice: the same schedule must give the same verdict
					_, x, probs := c15Run(store, sc, choices)
					fmt.Printf("replay %d: schedule %s\n  verdict: %v\n", i+1, x.ScheduleText(), probs)
					v := ""
					for _, p := range probs {
						v += p[0] + " "
						if i == 1 {
							rep.Violate(p[0], p[1], map[string]interface{}{"kind": "c15", "store": store, "scenario": scenario, "choices": choices})
						}
					}
					verdicts = append(verdicts, v)
				}
				if verdicts[0] != verdicts[1] {
					rep.HarnessErr = fmt.Sprintf("the same schedule gave two verdicts: %q and %q", verdicts[0], verdicts[1])
				}
			}
		}
		return rep
	}
	nums, extra := runSharded(rc, rep, len(jobs), func(sh Shard, rep *Report) *ShardResult {
		out := newShardResult()
		outcomes := hashSet{}
		for ji, j := range jobs {
			if !sh.Mine(ji) || (os.Getenv("VERIF_ONLY") != "" && !strings.Contains(c15StoreNames[j.store]+" "+scs[j.sc].Name, os.Getenv("VERIF_ONLY"))) {
				continue
			}
			sc := scs[j.sc]
			st := &E2Stats{}
			first := true
			exploreE2(bound, 60000, func(prefix []int) *E2Exec {
				fmt.Printf("EXEC store=%d scenario=%q choices=%v\n", j.store, sc.Name, prefix)
				e, x, probs := c15Run(j.store, sc, prefix)
				for _, p := range probs {
					rep.Violate(p[0], fmt.Sprintf("store %s, scenario %q, schedule [%s]: %s", c15StoreNames[j.store], sc.Name, x.ScheduleText(), p[1]),
						map[string]interface{}{"kind": "c15", "store": j.store, "scenario": sc.Name, "choices": x.Choices()})
				}
				e.mu.Lock()
				var o []string
				for _, op := range e.ops {
					o = append(o, fmt.Sprintf("%s%s%v", op.Thread, op.Kind, op.OK))
				}
				for _, w := range e.watchers {
					o = append(o, fmt.Sprintf("%s:%d", w.Name, len(w.Seen)))
				}
				e.mu.Unlock()
				sort.Strings(o)
				outcomes.Add(c15StoreNames[j.store] + sc.Name + strings.Join(o, ","))
				if first {
					first = false
					rep.Sample(40, map[string]interface{}{"store": c15StoreNames[j.store], "scenario": sc.Name, "default_schedule": x.ScheduleText(), "scheduling_points": len(x.Points)})
				}
				return x
			}, st)
			out.Numbers["schedules"] += int64(st.Executions)
			out.Numbers["scheduling_points"] += int64(st.Points)
			if st.Capped {
				rep.Exhaustive = false
			}
			out.Extra[c15StoreNames[j.store]+" / "+sc.Name] = map[string]interface{}{"schedules": st.Executions, "max_points": st.MaxPoints, "capped": st.Capped}
		}
		out.Distinct["outcomes"] = outcomes.List()
		return out
	})
	rep.Coverage["scenarios"] = extra
	rep.Coverage["schedules"] = nums["schedules"]
	rep.Coverage["preemption_bound"] = bound
	rep.Coverage["states"] = nums["schedules"]
	rep.Coverage["transitions"] = nums["scheduling_points"]
	rep.Coverage["traces_validated_against_impl"] = nums["schedules"]
	rep.Coverage["evaluations"] = nums["schedules"]
	rep.Coverage["distinct_nontrivial"] = nums["distinct:outcomes"]
	rep.Coverage["rule"] = fmt.Sprintf("5 stores x %d scenarios of 2-3 client threads (read-modify-write updaters, update vs update-status, creators, watchers with/without replay for all records / one record, abandoned and cancelled watchers); every data RPC of a thread is a scheduling point; all interleavings with at most %d pre-emptions, each executed on a fresh store over simatomix; oracles: porcupine linearizability against a per-key compare-and-set register, version/index monotonicity and uniqueness, every thread finishes, every live watcher ends on the final state of every record it is entitled to, and a probe update after the execution reaches a fresh and every surviving watcher", len(scs), bound)
	rep.Assumptions = append(rep.Assumptions, "a data RPC is atomic at simatomix (as a linearizable primitive is); the stores' internal goroutines and event delivery run to quiescence between two scheduled RPCs",
		"without replay a watcher is entitled to the records written after its Watch call returned")
	names := make([]string, 0, len(extra))
	for n := range extra {
		names = append(names, n)
	}
	sort.Strings(names)
	for _, n := range names {
		fmt.Printf("  %-110s %v\n", n, extra[n])
	}
	return rep
}

func init() { registerBubble("C15", checkC15) }

// C15race – the free-running pass for the race detector: the same thread bodies as C15, without the scheduler (a
// cooperative scheduler's hand-offs are happens-before edges that would blind the detector). The binary is built with
// -race by `check C15 thorough`; a report of the detector ends the process (GORACE=halt_on_error=1) and the calling
// script turns it into a VIOLATION. It decides nothing by itself: it only makes unsynchronised accesses visible that
// the scheduled exploration cannot see.
func checkC15Race(rc *RunCtx) *Report {
	rep := newReport("other")
	scs := c15Scenarios(true)
	runs := 0
	freeRunning = true
	for store := range c15StoreNames {
		for _, sc := range scs {
			for i := 0; i < envInt("VERIF_RACE_RUNS", 5); i++ {
				at := newSimAtomix(nil)
				st, err := c15NewStore(store, at)
				if err != nil {
					panic(err)
				}
				e := &c15Env{at: at, st: st, initial: map[string]c15Rec{}}
				for j, k := range sc.Keys {
					r, err := st.Create(context.Background(), k, 100+j)
					if err != nil {
						panic(err)
					}
					e.initial[k] = r
					if v3, ok := st.(c15TxV3); ok {
						v3.idx[k] = r.Index
					}
				}
				fmt.Printf("EXEC race store=%d scenario=%q run=%d\n", store, sc.Name, i)
				x := runE2(sc.Threads(e), func(g func(thread, method string)) {}, nil) // no gate: nothing is ever held
				x.Close()
				at.Stop()
				runs++
			}
		}
	}
	rep.Coverage["explanation"] = fmt.Sprintf("%d free-running executions of the C15 thread bodies under the Go race detector; no report", runs)
	rep.Coverage["evaluations"] = runs
	rep.Coverage["distinct_nontrivial"] = len(scs) * len(c15StoreNames)
	return rep
}

func init() { registerBubble("race-C15", checkC15Race) }
