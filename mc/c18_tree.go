package mc

import (
	"bytes"
	"encoding/json"
	"fmt"
	"sort"
	"strings"

	configv2 "github.com/onosproject/onos-api/go/onos/config/v2"
	configv3 "github.com/onosproject/onos-api/go/onos/config/v3"
	"github.com/onosproject/onos-config/pkg/utils"
	treev2 "github.com/onosproject/onos-config/pkg/utils/v2/tree"
	treev3 "github.com/onosproject/onos-config/pkg/utils/v3/tree"
)

// C18 – every subset (bounded size) of a universe of path/values and tombstones against an independent,
// schema-aware flattener and an element-aware subtree relation.

type c18Item struct {
	Path    string `json:"path"`
	Kind    string `json:"kind,omitempty"` // s=string u=uint32 i=int32 b=bool ; "" = tombstone only
	Val     string `json:"val,omitempty"`
	Deleted bool   `json:"deleted,omitempty"`
	KeyLeaf bool   `json:"-"`
}

// c18Schema: list schema path -> key names
var c18Schema = map[string][]string{
	"/cont/list":       {"name"},
	"/cont/list/inner": {"id"},
	"/cont/l2":         {"k1", "k2"},
	"/cont/l4":         {"n"},
	"/cont/l5":         {"k1", "k2"},
}

// c18Universe2: a second, small universe for entries of a two-key list whose key values are equal once written one
// after the other (a1|12 = a|112, 1|12 = 11|2): distinct key sets, so distinct entries. Every subset is enumerated.
var c18Universe2 = []c18Item{
	{Path: "/cont/l5[k1=a1][k2=12]/val", Kind: "s", Val: "p"},
	{Path: "/cont/l5[k1=a][k2=112]/val", Kind: "s", Val: "q"},
	{Path: "/cont/l5[k1=a][k2=112]/zz", Kind: "s", Val: "r"},
	{Path: "/cont/l5[k1=1][k2=12]/val", Kind: "s", Val: "s"},
	{Path: "/cont/l5[k1=11][k2=2]/val", Kind: "s", Val: "t"},
	{Path: "/cont/l5[k1=11][k2=2]/k1", Kind: "s", Val: "11", KeyLeaf: true},
	{Path: "/cont/l5[k1=a1][k2=12]"},
	{Path: "/cont/leafA", Kind: "s", Val: "x"},
}

var c18Universe = []c18Item{
	{Path: "/cont/leafA", Kind: "s", Val: "x"},
	{Path: "/cont/leafA2", Kind: "s", Val: "y"},
	{Path: "/cont/sub/leafB", Kind: "u", Val: "7"},
	{Path: "/cont/list[name=a]/val", Kind: "s", Val: "1"},
	{Path: "/cont/list[name=ab]/val", Kind: "s", Val: "2"},
	{Path: "/cont/list[name=a]/name", Kind: "s", Val: "a", KeyLeaf: true},
	{Path: "/cont/list[name=a]/zz", Kind: "s", Val: "z"},
	{Path: "/cont/l2[k1=1][k2=true]/val", Kind: "i", Val: "5"},
	{Path: "/cont/l2[k1=1][k2=false]/val", Kind: "i", Val: "6"},
	{Path: "/cont/l2[k1=11][k2=true]/val", Kind: "i", Val: "-7"},
	{Path: "/cont/l2[k1=1][k2=false]/k1", Kind: "u", Val: "1", KeyLeaf: true},
	{Path: "/cont/l2[k1=1][k2=false]/k2", Kind: "b", Val: "false", KeyLeaf: true},
	{Path: "/cont/l2[k1=1][k2=false]/zz", Kind: "s", Val: "q"},
	{Path: "/cont/list[name=a]/inner[id=1]/v", Kind: "s", Val: "n1"},
	{Path: "/cont/list[name=a]/inner[id=2]/v", Kind: "s", Val: "n2"},
	{Path: "/cont/list[name=ab]/inner[id=1]/v", Kind: "s", Val: "n3"},
	{Path: "/cont/l4[n=0]/n", Kind: "u", Val: "0", KeyLeaf: true},
	{Path: "/cont/l4[n=0]/val", Kind: "s", Val: "zero"},
	{Path: "/cont/list[name=x=y]/val", Kind: "s", Val: "eq"},
	{Path: "/cont/list[name=x=z]/val", Kind: "s", Val: "eq2"},
	// tombstone-only paths
	{Path: "/cont/sub"},
	{Path: "/cont"},
	{Path: "/cont/list[name=a]"},
	{Path: "/cont/list[name=ab]"},
	{Path: "/cont/list[name=a]/inner[id=1]"},
	{Path: "/cont/l2[k1=1][k2=true]"},
	{Path: "/cont/l2[k1=1][k2=false]"},
	{Path: "/cont/list"},
}

type c18Elem struct {
	name string
	keys map[string]string
}

func c18Split(path string) []c18Elem {
	p, err := utils.ParseGNMIElements(utils.SplitPath(path))
	if err != nil {
		panic(err)
	}
	var out []c18Elem
	for _, e := range p.Elem {
		out = append(out, c18Elem{e.Name, e.Key})
	}
	return out
}

// c18Covers: tombstone t removes path p (t is p itself or an ancestor at element boundaries; an element of t
// without keys addresses every entry of that list).
func c18Covers(t, p []c18Elem) bool {
	if len(t) > len(p) {
		return false
	}
	for i := range t {
		if t[i].name != p[i].name {
			return false
		}
		if len(t[i].keys) == 0 {
			continue
		}
		if len(t[i].keys) != len(p[i].keys) {
			return false
		}
		for k, v := range t[i].keys {
			if p[i].keys[k] != v {
				return false
			}
		}
	}
	return true
}

type c18Set []c18Item

func (s c18Set) live() map[string]c18Item {
	out := map[string]c18Item{}
	for _, it := range s {
		if it.Deleted {
			continue
		}
		dead := false
		for _, t := range s {
			if t.Deleted && c18Covers(c18Split(t.Path), c18Split(it.Path)) {
				dead = true
			}
		}
		if !dead {
			out[it.Path] = it
		}
	}
	return out
}

func (s c18Set) topTombstones() map[string]bool {
	out := map[string]bool{}
	for _, t := range s {
		if !t.Deleted {
			continue
		}
		top := true
		for _, u := range s {
			if u.Deleted && u.Path != t.Path && c18Covers(c18Split(u.Path), c18Split(t.Path)) {
				top = false
			}
		}
		if top {
			out[t.Path] = true
		}
	}
	return out
}

// textualCause reports whether some tombstone in s is a textual but not an element prefix of path p (or vice versa
// for wrongly kept paths) – the signature of prefix-sharing sibling names.
func (s c18Set) textualCause(paths []string) bool {
	for _, p := range paths {
		for _, t := range s {
			if t.Deleted && t.Path != p && strings.HasPrefix(p, t.Path) && !c18Covers(c18Split(t.Path), c18Split(p)) {
				return true
			}
		}
	}
	return false
}

type c18Impl struct {
	name      string
	buildTree func(s c18Set) ([]byte, error)
	prune     func(s c18Set, leaveTop bool) []string // resulting paths (with D: prefix for tombstones)
	pruneMap  func(s c18Set, leaveTop bool) []string
}

func c18V2(it c18Item) *configv2.PathValue {
	pv := &configv2.PathValue{Path: it.Path, Deleted: it.Deleted}
	switch it.Kind {
	case "s":
		pv.Value = *configv2.NewTypedValueString(it.Val)
	case "u":
		var v uint
		fmt.Sscan(it.Val, &v)
		pv.Value = *configv2.NewTypedValueUint(v, 32)
	case "i":
		var v int
		fmt.Sscan(it.Val, &v)
		pv.Value = *configv2.NewTypedValueInt(v, 32)
	case "b":
		pv.Value = *configv2.NewTypedValueBool(it.Val == "true")
	default:
		pv.Value = *configv2.NewTypedValueEmpty()
	}
	return pv
}

func c18V3(it c18Item) configv3.PathValue {
	pv := configv3.PathValue{Path: it.Path, Deleted: it.Deleted}
	switch it.Kind {
	case "s":
		pv.Value = *configv3.NewTypedValueString(it.Val)
	case "u":
		var v uint
		fmt.Sscan(it.Val, &v)
		pv.Value = *configv3.NewTypedValueUint(v, 32)
	case "i":
		var v int
		fmt.Sscan(it.Val, &v)
		pv.Value = *configv3.NewTypedValueInt(v, 32)
	case "b":
		pv.Value = *configv3.NewTypedValueBool(it.Val == "true")
	default:
		pv.Value = *configv3.NewTypedValueEmpty()
	}
	return pv
}

func c18Tag(path string, deleted bool) string {
	if deleted {
		return "D:" + path
	}
	return path
}

var c18Impls = []c18Impl{
	{
		name: "v2",
		buildTree: func(s c18Set) ([]byte, error) {
			var pvs []*configv2.PathValue
			for _, it := range s {
				pvs = append(pvs, c18V2(it))
			}
			return treev2.BuildTree(pvs, true)
		},
		prune: func(s c18Set, leaveTop bool) []string {
			var pvs []*configv2.PathValue
			for _, it := range s {
				pvs = append(pvs, c18V2(it))
			}
			var out []string
			for _, pv := range treev2.PrunePathValues(pvs, leaveTop) {
				out = append(out, c18Tag(pv.Path, pv.Deleted))
			}
			return out
		},
		pruneMap: func(s c18Set, leaveTop bool) []string {
			m := map[string]*configv2.PathValue{}
			for _, it := range s {
				m[it.Path] = c18V2(it)
			}
			var out []string
			for k, pv := range treev2.PrunePathMap(m, leaveTop) {
				if k != pv.Path {
					out = append(out, "BADKEY:"+k)
				}
				out = append(out, c18Tag(pv.Path, pv.Deleted))
			}
			return out
		},
	},
	{
		name: "v3",
		buildTree: func(s c18Set) ([]byte, error) {
			var pvs []configv3.PathValue
			for _, it := range s {
				pvs = append(pvs, c18V3(it))
			}
			return treev3.BuildTree(pvs, true)
		},
		prune: func(s c18Set, leaveTop bool) []string {
			var pvs []configv3.PathValue
			for _, it := range s {
				pvs = append(pvs, c18V3(it))
			}
			var out []string
			for _, pv := range treev3.PrunePathValues(pvs, leaveTop) {
				out = append(out, c18Tag(pv.Path, pv.Deleted))
			}
			return out
		},
		pruneMap: func(s c18Set, leaveTop bool) []string {
			m := map[string]configv3.PathValue{}
			for _, it := range s {
				m[it.Path] = c18V3(it)
			}
			var out []string
			for k, pv := range treev3.PrunePathMap(m, leaveTop) {
				if k != pv.Path {
					out = append(out, "BADKEY:"+k)
				}
				out = append(out, c18Tag(pv.Path, pv.Deleted))
			}
			return out
		},
	},
}

// c18Flatten walks an RFC 7951 document with the list schema and returns path -> rendered scalar.
// problems collects structural complaints (duplicate entries, entries without keys).
func c18Flatten(node interface{}, path, schemaPath string, schema map[string][]string, out map[string]string, problems *[]string) {
	m, ok := node.(map[string]interface{})
	if !ok {
		*problems = append(*problems, fmt.Sprintf("node at %q is %T, not an object", path, node))
		return
	}
	for f, v := range m {
		switch x := v.(type) {
		case map[string]interface{}:
			c18Flatten(x, path+"/"+f, schemaPath+"/"+f, schema, out, problems)
		case []interface{}:
			keys, isList := schema[schemaPath+"/"+f]
			if !isList {
				out[path+"/"+f] = fmt.Sprint(x)
				continue
			}
			seen := map[string]bool{}
			for _, e := range x {
				em, ok := e.(map[string]interface{})
				if !ok {
					*problems = append(*problems, fmt.Sprintf("list %s%s/%s has a non-object entry %v", "", path, f, e))
					continue
				}
				elem := f
				sorted := append([]string{}, keys...)
				sort.Strings(sorted)
				for _, k := range sorted {
					kv, ok := em[k]
					if !ok {
						*problems = append(*problems, fmt.Sprintf("entry-without-key: entry of %s/%s lacks key %s: %v", path, f, k, em))
					}
					elem += fmt.Sprintf("[%s=%v]", k, kv)
				}
				if seen[elem] {
					*problems = append(*problems, fmt.Sprintf("entry-split: list %s/%s has two entries for %s", path, f, elem))
				}
				seen[elem] = true
				c18Flatten(em, path+"/"+elem, schemaPath+"/"+f, schema, out, problems)
			}
		default:
			out[path+"/"+f] = fmt.Sprint(x)
		}
	}
}

func c18Diff(want, got map[string]bool) (missing, extra []string) {
	for p := range want {
		if !got[p] {
			missing = append(missing, p)
		}
	}
	for p := range got {
		if !want[p] {
			extra = append(extra, p)
		}
	}
	sort.Strings(missing)
	sort.Strings(extra)
	return
}

func c18CheckOne(rep *Report, impl c18Impl, s c18Set) (nontrivial bool) {
	replay := map[string]interface{}{"kind": "c18-set", "set": s, "impl": impl.name}
	defer func() {
		if r := recover(); r != nil {
			rep.Violate(impl.name+"/panic", fmt.Sprintf("panic %v on %v", r, s), replay)
		}
	}()
	live := s.live()
	top := s.topTombstones()
	cause := func(paths []string) string {
		if s.textualCause(paths) {
			return "textual-prefix-sibling"
		}
		return "other"
	}
	// pruning, both flavours, slice and map API
	for _, leaveTop := range []bool{false, true} {
		want := map[string]bool{}
		for p := range live {
			want[p] = true
		}
		if leaveTop {
			for p := range top {
				want["D:"+p] = true
			}
		}
		for apiName, api := range map[string]func(c18Set, bool) []string{"PrunePathValues": impl.prune, "PrunePathMap": impl.pruneMap} {
			got := map[string]bool{}
			dup := false
			for _, p := range api(s, leaveTop) {
				if got[p] {
					dup = true
				}
				got[p] = true
			}
			missing, extra := c18Diff(want, got)
			if len(missing)+len(extra) > 0 || dup {
				all := append(append([]string{}, missing...), extra...)
				for i := range all {
					all[i] = strings.TrimPrefix(all[i], "D:")
				}
				rep.Violate(fmt.Sprintf("%s/prune/%s", impl.name, cause(all)),
					fmt.Sprintf("%s(leaveTop=%v) on %s: wrongly removed %v, wrongly kept %v", apiName, leaveTop, s.String(), missing, extra), replay)
			}
		}
	}
	// document
	doc, err := impl.buildTree(s)
	if err != nil {
		rep.Violate(impl.name+"/tree/error", fmt.Sprintf("BuildTree(%s) fails: %v", s.String(), err), replay)
		return true
	}
	dec := json.NewDecoder(bytes.NewReader(doc))
	dec.UseNumber()
	var root interface{}
	if err := dec.Decode(&root); err != nil {
		rep.Violate(impl.name+"/tree/unparsable", fmt.Sprintf("BuildTree(%s) = %s: %v", s.String(), doc, err), replay)
		return true
	}
	flat := map[string]string{}
	var problems []string
	c18Flatten(root, "", "", c18Schema, flat, &problems)
	for _, p := range problems {
		cl := "structure"
		if i := strings.Index(p, ":"); i > 0 && !strings.Contains(p[:i], " ") {
			cl = p[:i]
		}
		rep.Violate(impl.name+"/tree/"+cl, fmt.Sprintf("%s in BuildTree(%s) = %s", p, s.String(), oneLine(string(doc))), replay)
	}
	// compare leaves; key leaves are implied by the entry and only compared for value
	want := map[string]bool{}
	for p, it := range live {
		if !it.KeyLeaf {
			want[p] = true
		}
	}
	got := map[string]bool{}
	for p, v := range flat {
		if c18IsKeyLeaf(p) {
			// the key leaf must carry the key value of its entry
			elems := c18Split(p)
			ent := elems[len(elems)-2]
			if ent.keys[elems[len(elems)-1].name] != v {
				rep.Violate(impl.name+"/tree/key-leaf-value", fmt.Sprintf("key leaf %s rendered as %s in BuildTree(%s)", p, v, s.String()), replay)
			}
			continue
		}
		got[p] = true
		if it, ok := live[p]; ok && it.Val != v {
			rep.Violate(impl.name+"/tree/leaf-value", fmt.Sprintf("leaf %s = %s rendered as %s", p, it.Val, v), replay)
		}
	}
	missing, extra := c18Diff(want, got)
	if len(missing)+len(extra) > 0 {
		rep.Violate(fmt.Sprintf("%s/tree/leaves/%s", impl.name, cause(append(append([]string{}, missing...), extra...))),
			fmt.Sprintf("BuildTree(%s): leaves missing from the document %v, leaves that should not be there %v; document %s", s.String(), missing, extra, oneLine(string(doc))), replay)
	}
	return len(live) > 0 && len(live) < len(s)
}

func c18IsKeyLeaf(p string) bool {
	elems := c18Split(p)
	if len(elems) < 2 {
		return false
	}
	_, ok := elems[len(elems)-2].keys[elems[len(elems)-1].name]
	return ok
}

func (s c18Set) String() string {
	var parts []string
	for _, it := range s {
		if it.Deleted {
			parts = append(parts, "D:"+it.Path)
		} else {
			parts = append(parts, it.Path+"="+it.Val)
		}
	}
	return "{" + strings.Join(parts, ", ") + "}"
}

func checkC18(rc *RunCtx) *Report {
	rep := newReport("exploration")
	if rc.Replay != "" {
		var s c18Set
		var implName string
		if err := loadReplay(rc.Replay, "set", &s); err != nil {
			rep.HarnessErr = err.Error()
			return rep
		}
		for i := range s {
			for _, u := range append(append([]c18Item{}, c18Universe...), c18Universe2...) {
				if u.Path == s[i].Path {
					s[i].KeyLeaf = u.KeyLeaf
				}
			}
		}
		_ = loadReplay(rc.Replay, "impl", &implName)
		for _, impl := range c18Impls {
			if implName == "" || impl.name == implName {
				c18CheckOne(rep, impl, s)
			}
		}
		rep.Coverage["evaluations"] = 1
		return rep
	}
	maxSize := 4
	if rc.Thorough() {
		maxSize = 5
	}
	evals, nontrivial := 0, 0
	var cur c18Set
	universe := c18Universe
	var rec func(start int)
	rec = func(start int) {
		if len(cur) > 0 {
			for _, impl := range c18Impls {
				evals++
				if c18CheckOne(rep, impl, cur) {
					nontrivial++
				}
			}
			if evals%50021 == 1 {
				rep.Sample(5, cur.String())
			}
		}
		if len(cur) == maxSize {
			return
		}
		for i := start; i < len(universe); i++ {
			u := universe[i]
			if u.Kind != "" {
				cur = append(cur, u)
				rec(i + 1)
				cur = cur[:len(cur)-1]
			}
			d := u
			d.Deleted = true
			cur = append(cur, d)
			rec(i + 1)
			cur = cur[:len(cur)-1]
		}
	}
	rec(0)
	universe, maxSize = c18Universe2, len(c18Universe2)
	rec(0)
	rep.Coverage["evaluations"] = evals
	rep.Coverage["distinct_nontrivial"] = nontrivial
	rep.Coverage["rule"] = fmt.Sprintf("every set of 1..%d distinct paths from a universe of %d (20 leaves, each live or tombstoned, incl. prefix-sharing sibling names, nested list, two-key list with numeric/boolean keys, key leaves with values 0/false, key values containing '='; 8 container / list-entry / whole-list tombstones), plus every subset of a second universe of %d paths (entries of a two-key list whose key values coincide when written one after the other), v2 and v3; oracles: PrunePathValues/PrunePathMap (both flavours) = element-aware reference, flatten(BuildTree) = live leaves, one entry per key set; non-trivial = sets in which some but not all members survive pruning (each set is distinct by construction)", map[bool]int{false: 4, true: 5}[rc.Thorough()], len(c18Universe), len(c18Universe2))
	return rep
}

func init() { register("C18", checkC18) }
