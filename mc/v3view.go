package mc

import (
	"context"
	"fmt"
	"sort"
	"strings"
	"time"

	configv3 "github.com/onosproject/onos-api/go/onos/config/v3"
	"github.com/onosproject/onos-lib-go/pkg/errors"
)

// V3View is a snapshot of the v3 stores read through the stores themselves.
type V3View struct {
	Txs  map[string][]*configv3.Transaction // by target, in index order
	Cfgs map[string]*configv3.Configuration
}

func (w *World) View3() *V3View {
	ctx, cancel := context.WithTimeout(context.Background(), time.Minute)
	defer cancel()
	v := &V3View{Txs: map[string][]*configv3.Transaction{}, Cfgs: map[string]*configv3.Configuration{}}
	for _, t := range w.cfg.Targets {
		c, err := w.cfgs3.Get(ctx, configv3.ConfigurationID{Target: w.v3Target(t)})
		if err == nil {
			v.Cfgs[t] = c
		}
		for i := 1; ; i++ {
			tx, err := w.txs3.Get(ctx, configv3.TransactionID{Target: w.v3Target(t), Index: configv3.Index(i)})
			if err != nil {
				if !errors.IsNotFound(err) {
					panic(fmt.Sprintf("v3 view: %v", err))
				}
				break
			}
			tx.ID.Target = w.v3Target(t)
			v.Txs[t] = append(v.Txs[t], tx)
		}
	}
	return v
}

func (v *V3View) Tx(target string, index uint64) *configv3.Transaction {
	l := v.Txs[target]
	if index == 0 || int(index) > len(l) {
		return nil
	}
	return l[index-1]
}

func pv3Text(pv configv3.PathValue) string {
	if pv.Deleted {
		return fmt.Sprintf("%s=<deleted>@%d", pv.Path, pv.Index)
	}
	return fmt.Sprintf("%s=%s@%d", pv.Path, string(pv.Value.Bytes), pv.Index)
}

func pv3MapText(m map[string]configv3.PathValue) string {
	ks := make([]string, 0, len(m))
	for k := range m {
		ks = append(ks, k)
	}
	sort.Strings(ks)
	var parts []string
	for _, k := range ks {
		parts = append(parts, pv3Text(m[k]))
	}
	return "{" + strings.Join(parts, ", ") + "}"
}

func phase3Text(p *configv3.TransactionPhaseStatus) string {
	if p == nil {
		return "nil"
	}
	s := p.State.String()
	if p.Failure != nil {
		s += "/" + p.Failure.Type.String()
	}
	return s
}

func tx3Text(t *configv3.Transaction) string {
	return fmt.Sprintf("tx %s/%d %s values=%s change[ord=%d commit=%s apply=%s] rollback[idx=%d ord=%d commit=%s apply=%s values=%s]",
		t.ID.Target.ID, t.ID.Index, t.Status.Phase, pv3MapText(t.Values),
		t.Status.Change.Ordinal, phase3Text(t.Status.Change.Commit), phase3Text(t.Status.Change.Apply),
		t.Status.Rollback.Index, t.Status.Rollback.Ordinal, phase3Text(t.Status.Rollback.Commit), phase3Text(t.Status.Rollback.Apply), pv3MapText(t.Status.Rollback.Values))
}

func cfg3Text(c *configv3.Configuration) string {
	m := "nil"
	if c.Status.Mastership != nil {
		m = fmt.Sprintf("%s/%d", c.Status.Mastership.Master, c.Status.Mastership.Term)
	}
	return fmt.Sprintf("cfg %s state=%s mastership=%s committed[idx=%d ord=%d rev=%d target=%d change=%d values=%s] applied[idx=%d ord=%d rev=%d target=%d term=%d values=%s]",
		c.ID.Target.ID, c.Status.State, m,
		c.Committed.Index, c.Committed.Ordinal, c.Committed.Revision, c.Committed.Target, c.Committed.Change, pv3MapText(c.Committed.Values),
		c.Applied.Index, c.Applied.Ordinal, c.Applied.Revision, c.Applied.Target, c.Applied.Term, pv3MapText(c.Applied.Values))
}

// Canon renders the v3 store content canonically (no timestamps, versions, uuids).
func (v *V3View) Canon() string {
	var b strings.Builder
	ts := make([]string, 0, len(v.Cfgs))
	for t := range v.Cfgs {
		ts = append(ts, t)
	}
	sort.Strings(ts)
	for _, t := range ts {
		b.WriteString(cfg3Text(v.Cfgs[t]) + "\n")
		for _, tx := range v.Txs[t] {
			b.WriteString(tx3Text(tx) + "\n")
		}
	}
	return b.String()
}

func (w *World) allObjectIDs3() []Token {
	v := w.View3()
	var out []Token
	for _, t := range w.cfg.Targets {
		for _, tx := range v.Txs[t] {
			out = append(out, Token{Ctrl: cTx, ID: fmt.Sprintf("%s/%d", t, tx.ID.Index)})
		}
		out = append(out, Token{Ctrl: cCfg, ID: t}, Token{Ctrl: cMast, ID: t}, Token{Ctrl: cTarget, ID: t})
		if c := w.conns.LiveConn(topoID(t)); c != "" {
			out = append(out, Token{Ctrl: cConn, ID: string(c)})
		}
	}
	for _, l := range w.topo.Canon() {
		if strings.HasPrefix(l, "rel ") {
			out = append(out, Token{Ctrl: cConn, ID: strings.Fields(l)[1]})
		}
	}
	return out
}

// ---- client operations of the v3 protocol (spec: AppendChange, RollbackChange) ----

func v3Values(kv ...string) map[string]configv3.PathValue {
	m := map[string]configv3.PathValue{}
	for i := 0; i+1 < len(kv); i += 2 {
		if kv[i+1] == "<delete>" {
			m[kv[i]] = configv3.PathValue{Path: kv[i], Deleted: true}
		} else {
			m[kv[i]] = configv3.PathValue{Path: kv[i], Value: configv3.TypedValue{Bytes: []byte(kv[i+1]), Type: configv3.ValueType_STRING}}
		}
	}
	return m
}

// appendChange3 appends a change to the target's log (spec: AppendChange).
func appendChange3(name, target string, kv ...string) SetReqOrCall {
	return SetReqOrCall{Name: name, Call: func(w *World) *Call {
		c := &Call{cancel: func() {}}
		tx := &configv3.Transaction{ID: configv3.TransactionID{Target: w.v3Target(target)}, Values: v3Values(kv...)}
		tx.Key = name
		tx.Status.Phase = configv3.TransactionStatus_CHANGE
		tx.Status.Change.Commit = &configv3.TransactionPhaseStatus{State: configv3.TransactionPhaseStatus_PENDING}
		tx.Status.Change.Apply = &configv3.TransactionPhaseStatus{State: configv3.TransactionPhaseStatus_PENDING}
		c.Err = w.txs3.Create(context.Background(), tx)
		c.Done = true
		return c
	}}
}

// rollbackChange3 moves a committed change to the rollback phase (spec: RollbackChange); it is refused
// (Done with an error) while the change is not committed yet.
func rollbackChange3(name, target string, index uint64) SetReqOrCall {
	return SetReqOrCall{Name: name, Call: func(w *World) *Call {
		c := &Call{cancel: func() {}, Done: true}
		tx, err := w.txs3.Get(context.Background(), configv3.TransactionID{Target: w.v3Target(target), Index: configv3.Index(index)})
		if err != nil {
			c.Err = err
			return c
		}
		tx.ID.Target = w.v3Target(target)
		if tx.Status.Phase != configv3.TransactionStatus_CHANGE || tx.Status.Change.Commit == nil || tx.Status.Change.Commit.State != configv3.TransactionPhaseStatus_COMPLETE {
			c.Err = errors.NewForbidden("change %d is not committed", index)
			return c
		}
		tx.Status.Phase = configv3.TransactionStatus_ROLLBACK
		tx.Status.Rollback.Commit = &configv3.TransactionPhaseStatus{State: configv3.TransactionPhaseStatus_PENDING}
		tx.Status.Rollback.Apply = &configv3.TransactionPhaseStatus{State: configv3.TransactionPhaseStatus_PENDING}
		c.Err = w.txs3.UpdateStatus(context.Background(), tx)
		return c
	}}
}
