package mc

import (
	"fmt"
	"sort"
	"strings"

	configapi "github.com/onosproject/onos-api/go/onos/config/v2"
	"google.golang.org/grpc/codes"
)

// C11 – a device refusing a change fails that change only, and only real refusals.
//
// Engine: E1a. Scenario: two Sets on a connected target (different leaves); the device answers the first n apply
// requests it receives with gRPC code c (real gRPC statuses through the repository's own client wrapper).
// Invariants on every state + oracles on the terminal states of the any-time graph (nothing can act any more).

var c11Transient = map[codes.Code]bool{codes.Unavailable: true, codes.Canceled: true, codes.DeadlineExceeded: true, codes.PermissionDenied: true}

// the failure class the apply path records for a code (only for the codes it names)
var c11Class = map[codes.Code]configapi.Failure_Type{
	codes.Unknown: configapi.Failure_UNKNOWN, codes.NotFound: configapi.Failure_NOT_FOUND, codes.AlreadyExists: configapi.Failure_ALREADY_EXISTS,
	codes.Unauthenticated: configapi.Failure_UNAUTHORIZED, codes.FailedPrecondition: configapi.Failure_CONFLICT, codes.InvalidArgument: configapi.Failure_INVALID,
	codes.Unimplemented: configapi.Failure_NOT_SUPPORTED, codes.Internal: configapi.Failure_INTERNAL,
}

var c11AllCodes = []codes.Code{codes.Canceled, codes.Unknown, codes.InvalidArgument, codes.DeadlineExceeded, codes.NotFound, codes.AlreadyExists,
	codes.PermissionDenied, codes.ResourceExhausted, codes.FailedPrecondition, codes.Aborted, codes.OutOfRange, codes.Unimplemented, codes.Internal,
	codes.Unavailable, codes.DataLoss, codes.Unauthenticated}

type c11Param struct {
	code         codes.Code
	burst        int
	which        int  // which transaction's apply meets the error: 1 or 2
	crash        int  // crash budget
	serializable bool // the first Set asks for SERIALIZABLE isolation
}

func c11Scenarios(thorough bool) ([]*Scenario, map[string]c11Param) {
	params := map[string]c11Param{}
	var scs []*Scenario
	add := func(p c11Param) {
		name := fmt.Sprintf("S6 two Sets on T1; the device answers apply #%d with %s x%d", p.which, p.code, p.burst)
		if p.crash > 0 {
			name += fmt.Sprintf("; %d crash", p.crash)
		}
		if p.serializable {
			name += "; first Set SERIALIZABLE"
		}
		first := setReq("T1.leafA=1", upd("T1", "/cont/leafA", "1"))
		if p.serializable {
			first.Set.Extension = append(first.Set.Extension, isolationExt())
		}
		params[name] = p
		scs = append(scs, &Scenario{Name: name, Cfg: WorldConfig{Targets: []string{"T1"}},
			Init: func(w *World) {
				connectAll("T1")(w)
				var script []codes.Code
				for i := 1; i < p.which; i++ {
					script = append(script, codes.OK)
				}
				for i := 0; i < p.burst; i++ {
					script = append(script, p.code)
				}
				if p.crash > 0 && !c11Transient[p.code] {
					// a refusal must be repeatable: after a crash the change is sent again and refused again
					w.devices["T1"].refuse = map[string]codes.Code{`/cont/leafA=string:"1"`: p.code}
					script = nil
				}
				w.devices["T1"].script = script
			},
			CrashBudget: p.crash,
			Requests:    []SetReqOrCall{first, setReq("T1.leafA2=2", upd("T1", "/cont/leafA2", "2"))}})
	}
	add(c11Param{code: codes.InvalidArgument, burst: 1, which: 1, crash: 1})
	add(c11Param{code: codes.Unavailable, burst: 1, which: 1, crash: 1})
	add(c11Param{code: codes.InvalidArgument, burst: 1, which: 1, serializable: true})
	add(c11Param{code: codes.Unavailable, burst: 2, which: 1, serializable: true})
	for _, c := range c11AllCodes {
		add(c11Param{code: c, burst: 1, which: 1})
		if c11Transient[c] {
			add(c11Param{code: c, burst: 2, which: 1})
			if thorough {
				add(c11Param{code: c, burst: 3, which: 1})
			}
		}
		if thorough || c == codes.InvalidArgument || c == codes.Unavailable {
			add(c11Param{code: c, burst: 1, which: 2})
		}
	}
	// "merely unreachable": the first change is committed while the device is offline, a second one is rejected by the
	// model and aborted behind it, a third follows; the device connects at any time. Nothing was refused by the device:
	// the first and third change are applied once it can be reached, in order.
	scs = append(scs, &Scenario{Name: "S7u Set while T1 is unreachable, a Set the model rejects, a third Set; the device connects at any time", Cfg: WorldConfig{Targets: []string{"T1"}},
		Init: func(w *World) {
			w.plugins["T1"].SetVerdict(rejectIf(func(f map[string]string) bool { return f["/cont/leafA2"] == "bad" }, "leafA2 must not be bad"))
		},
		Requests: []SetReqOrCall{setReq("T1.leafA=1", upd("T1", "/cont/leafA", "1")), setReq("T1.leafA2=bad", upd("T1", "/cont/leafA2", "bad")), setReq("T1.sub/leafC=c", upd("T1", "/cont/sub/leafC", "c"))},
		Faults:   []FaultSpec{faultConnUp("T1")}, FaultBudget: 1})
	params[scs[len(scs)-1].Name] = c11Param{code: codes.OK}
	// a refusal of a subtree delete, followed by a new mastership term: "the device is left as it was" must also hold
	// after the re-synchronisation that the reconnection causes
	scs = append(scs, &Scenario{Name: "S6d leaves applied on T1; a delete of their container that the device refuses (InvalidArgument), then a Set; connection lost and re-established anywhere", Cfg: WorldConfig{Targets: []string{"T1"}},
		Init: func(w *World) {
			connectAll("T1")(w)
			w.devices["T1"].refuse = map[string]codes.Code{"delete /cont/sub": codes.InvalidArgument}
		},
		Prefix: []func(w *World) *Call{func(w *World) *Call {
			return w.GoSet(bgCtx(), setReq("T1.leafA=1+sub/leafC=c", upd("T1", "/cont/leafA", "1"), upd("T1", "/cont/sub/leafC", "c")).Set)
		}},
		Requests: []SetReqOrCall{setReq("del /cont/sub", del("T1", "/cont/sub")), setReq("T1.leafA2=2", upd("T1", "/cont/leafA2", "2"))},
		Faults:   []FaultSpec{faultConnDown("T1"), faultConnUp("T1")}, FaultBudget: 2})
	params[scs[len(scs)-1].Name] = c11Param{code: codes.InvalidArgument, burst: 1, which: 2}
	return scs, params
}

func c11DeviceText(w *World) string {
	c := w.devices["T1"].Content()
	keys := make([]string, 0, len(c))
	for k, v := range c {
		keys = append(keys, k+"="+v)
	}
	sort.Strings(keys)
	return strings.Join(keys, ";")
}

func checkC11(rc *RunCtx) *Report {
	rep := newReport("model_checking")
	scs, params := c11Scenarios(rc.Thorough())
	if rc.Replay != "" {
		replayE1(rc, rep, scs)
		return rep
	}
	invariant := func(sc *Scenario, v *StoreView) (string, string) {
		p := params[sc.Name]
		for id, pr := range v.Props {
			ap := pr.Status.Phases.Apply
			if ap == nil || ap.State != configapi.ProposalApplyPhase_FAILED {
				continue
			}
			if c11Transient[p.code] {
				return "transient-error-fails-the-change/" + p.code.String(), fmt.Sprintf("the device answered %s (unreachable / slow / superseded), yet proposal %s is FAILED (%s)", p.code, id, failText(ap.Failure))
			}
			if want, ok := c11Class[p.code]; ok && (ap.Failure == nil || ap.Failure.Type != want) {
				return "wrong-failure-class/" + p.code.String(), fmt.Sprintf("the device refused with %s, proposal %s records failure class %s instead of %s", p.code, id, failText(ap.Failure), want)
			}
		}
		return "", ""
	}
	terminal := func(sc *Scenario, w *World) (string, string) {
		p := params[sc.Name]
		v := w.View()
		if strings.HasPrefix(sc.Name, "S7u") {
			if len(v.Txs) < 3 {
				return "", ""
			}
			for i, tx := range v.Txs {
				if i != 1 && tx.Status.State == configapi.TransactionStatus_FAILED {
					return "unreachable-device-fails-the-change", fmt.Sprintf("the device was merely unreachable, yet transaction %d is FAILED (%s)", i+1, failText(tx.Status.Failure))
				}
			}
			if w.conns.LiveConn(topoID("T1")) == "" {
				return "", ""
			}
			for _, i := range []int{0, 2} {
				if v.Txs[i].Status.State != configapi.TransactionStatus_APPLIED {
					return "pending-change-not-applied-once-reachable", fmt.Sprintf("nothing can act any more, T1 connected, transaction %d is %s (%s)", i+1, v.Txs[i].Status.State, txPhasesText(v.Txs[i].Status.Phases))
				}
			}
			wl := []string{`/cont/leafA=string:"1"`, `/cont/sub/leafC=string:"c"`}
			sort.Strings(wl)
			if dev := c11DeviceText(w); dev != strings.Join(wl, ";") {
				return "pending-change-not-on-the-device-once-reachable", fmt.Sprintf("nothing can act any more, T1 connected, transactions 1 and 3 APPLIED, but the device holds %q, expected %q", dev, strings.Join(wl, ";"))
			}
			return "", ""
		}
		if strings.HasPrefix(sc.Name, "S6d") {
			// transactions: 1 = prefix (applied), 2 = the refused delete, 3 = the later Set
			if len(v.Txs) < 3 {
				return "", ""
			}
			if v.Txs[1].Status.State != configapi.TransactionStatus_FAILED {
				return "refused-change-not-failed/InvalidArgument/subtree-delete", fmt.Sprintf("the device refused the delete of /cont/sub but transaction 2 ends %s", v.Txs[1].Status.State)
			}
			if w.conns.LiveConn(topoID("T1")) == "" {
				return "", ""
			}
			if v.Txs[2].Status.State != configapi.TransactionStatus_APPLIED {
				return "other-change-not-applied/InvalidArgument/subtree-delete", fmt.Sprintf("nothing can act any more, T1 connected, transaction 3 is %s (%s)", v.Txs[2].Status.State, txPhasesText(v.Txs[2].Status.Phases))
			}
			want := `/cont/leafA2=string:"2";/cont/leafA=string:"1";/cont/sub/leafC=string:"c"`
			wl := strings.Split(want, ";")
			sort.Strings(wl)
			if dev := c11DeviceText(w); dev != strings.Join(wl, ";") {
				return "device-content/InvalidArgument/subtree-delete", fmt.Sprintf("the device refused the delete of /cont/sub and must be left as it was; at the end (T1 connected) it holds %q, expected %q", dev, strings.Join(wl, ";"))
			}
			return "", ""
		}
		if len(v.Txs) < 2 {
			return "", ""
		}
		dev := c11DeviceText(w)
		failedIdx := p.which
		for i, tx := range v.Txs {
			n := i + 1
			if !c11Transient[p.code] && n == failedIdx {
				if tx.Status.State != configapi.TransactionStatus_FAILED {
					return "refused-change-not-failed/" + p.code.String(), fmt.Sprintf("the device refused transaction %d with %s but it ends %s", n, p.code, tx.Status.State)
				}
				continue
			}
			if tx.Status.State != configapi.TransactionStatus_APPLIED {
				return "other-change-not-applied/" + p.code.String(), fmt.Sprintf("nothing can act any more, transaction %d is %s (%s) although the device answers OK now (code %s for apply #%d, device holds %q)", n, tx.Status.State, txPhasesText(tx.Status.Phases), p.code, p.which, dev)
			}
		}
		want := []string{`/cont/leafA=string:"1"`, `/cont/leafA2=string:"2"`}
		if !c11Transient[p.code] {
			want = append(want[:failedIdx-1], want[failedIdx:]...)
		}
		sort.Strings(want)
		if dev != strings.Join(want, ";") {
			return "device-content/" + p.code.String(), fmt.Sprintf("at the end the device holds %q, expected %q (code %s for apply #%d)", dev, strings.Join(want, ";"), p.code, p.which)
		}
		return "", ""
	}
	runMonitorCheck(rc, rep, scs, nil, nil,
		func(sc *Scenario, x *Explorer, s *E1State, cands *candidates) {
			x.W.Restore(s.snap)
			if cl, text := invariant(sc, x.W.fastView()); cl != "" {
				cands.consider(x, rep, sc, s, cl, fmt.Sprintf("scenario %q: %s", sc.Name, text), func(w *World) (bool, string) {
					c2, t2 := invariant(sc, w.View())
					return c2 == cl, t2
				})
			}
		},
		func(sc *Scenario, x *Explorer, s *E1State, cands *candidates) {
			if s.env.NextReq < len(sc.Requests) {
				return
			}
			x.W.Restore(s.snap)
			if cl, text := terminal(sc, x.W); cl != "" {
				if s.env.Crashes > 0 {
					cl += "/after-crash"
				}
				cands.consider(x, rep, sc, s, cl, fmt.Sprintf("scenario %q: %s", sc.Name, text), func(w *World) (bool, string) {
					c2, t2 := terminal(sc, w)
					return c2 != "" && strings.HasPrefix(cl, c2), t2
				})
			}
		})
	return rep
}

func init() { registerBubble("C11", checkC11) }
