package mc

import (
	"fmt"

	"google.golang.org/grpc/codes"
	"sort"
	"strings"

	configapi "github.com/onosproject/onos-api/go/onos/config/v2"
	valuesv2 "github.com/onosproject/onos-config/pkg/utils/v2/values"
)

// C10 – only the current master writes, in its term, after re-synchronising.
// C04 – a connected device converges to the stored configuration.
//
// Engine: E1a with connection loss / re-establishment and device restarts placed anywhere (budgeted), all six
// controllers (connection, target, mastership, configuration, proposal, transaction).

func c10Scenarios(thorough bool) []*Scenario {
	a := func(leaf, v string) SetReqOrCall { return setReq("T1."+leaf+"="+v, upd("T1", "/cont/"+leaf, v)) }
	budget := 2
	scs := []*Scenario{
		{Name: "S5 Set while T1 is offline; the device connects, may drop and come back", Cfg: WorldConfig{Targets: []string{"T1"}},
			Requests: []SetReqOrCall{a("leafA", "1")}, Faults: []FaultSpec{faultConnUp("T1"), faultConnDown("T1")}, FaultBudget: 3},
		{Name: "S5b two Sets on T1 connected; connection lost and re-established anywhere", Cfg: WorldConfig{Targets: []string{"T1"}}, Init: connectAll("T1"),
			Requests: []SetReqOrCall{a("leafA", "1"), a("leafA2", "2")}, Faults: []FaultSpec{faultConnDown("T1"), faultConnUp("T1")}, FaultBudget: budget},
		{Name: "S5r two Sets on T1 connected; the device restarts empty anywhere", Cfg: WorldConfig{Targets: []string{"T1"}}, Init: connectAll("T1"),
			Requests: []SetReqOrCall{a("leafA", "1"), a("leafA2", "2")}, Faults: []FaultSpec{faultDeviceRestart("T1")}, FaultBudget: 1},
		{Name: "S5d Set, then a delete of its container, connected; the device restarts empty anywhere", Cfg: WorldConfig{Targets: []string{"T1"}}, Init: connectAll("T1"),
			Requests: []SetReqOrCall{setReq("T1.leafA=1+sub/leafC=c", upd("T1", "/cont/leafA", "1"), upd("T1", "/cont/sub/leafC", "c")), setReq("del /cont/sub + leafA2=2", del("T1", "/cont/sub"), upd("T1", "/cont/leafA2", "2"))},
			Faults:   []FaultSpec{faultDeviceRestart("T1")}, FaultBudget: 1},
		{Name: "S5u two Sets on T1 connected; the device restarts empty and is unavailable for one request, anywhere", Cfg: WorldConfig{Targets: []string{"T1"}}, Init: connectAll("T1"),
			Requests: []SetReqOrCall{a("leafA", "1"), a("leafA2", "2")}, Faults: []FaultSpec{faultDeviceRestart("T1"), faultDeviceAnswers("T1", codes.Unavailable, 1)}, FaultBudget: 2},
		{Name: "S4r Set and its rollback, connected; the device restarts empty anywhere", Cfg: WorldConfig{Targets: []string{"T1"}}, Init: connectAll("T1"),
			Requests: []SetReqOrCall{a("leafA", "1"), rollbackReq("rollback(1)", 1)}, Faults: []FaultSpec{faultDeviceRestart("T1")}, FaultBudget: 1},
	}
	scs = append(scs, []*Scenario{
		// split steps: one reconcile call is parked before one of its effects (a store write, a topo write or a device
		// Set) while the environment and the other controllers move on – a re-synchronisation or an apply that is
		// overtaken by a restart of the device and a new mastership term – and then continues with what it had read
		{Name: "S5h Set applied on T1; connection loss, re-connection and a device restart anywhere; one step split", Cfg: WorldConfig{Targets: []string{"T1"}}, Init: connectAll("T1"),
			Prefix:   []func(w *World) *Call{func(w *World) *Call { return w.GoSet(bgCtx(), a("leafA", "1").Set) }},
			Requests: nil, Faults: []FaultSpec{faultDeviceRestart("T1"), faultConnDown("T1"), faultConnUp("T1")}, FaultBudget: 3, HoldBudget: 1, HoldDepth: 6},
		{Name: "S5g Set applied on T1, second Set; the device restarts empty anywhere; one step split", Cfg: WorldConfig{Targets: []string{"T1"}}, Init: connectAll("T1"),
			Prefix:   []func(w *World) *Call{func(w *World) *Call { return w.GoSet(bgCtx(), a("leafA", "1").Set) }},
			Requests: []SetReqOrCall{a("leafA2", "2")}, Faults: []FaultSpec{faultDeviceRestart("T1")}, FaultBudget: 1, HoldBudget: 1, HoldDepth: 6},
	}...)
	if thorough {
		scs = append(scs,
			&Scenario{Name: "S5c Set on T1 connected; restart, connection loss and one crash", Cfg: WorldConfig{Targets: []string{"T1"}}, Init: connectAll("T1"),
				Requests: []SetReqOrCall{a("leafA", "1")}, Faults: []FaultSpec{faultDeviceRestart("T1"), faultConnDown("T1"), faultConnUp("T1")}, FaultBudget: 2, CrashBudget: 1, MaxStates: 1500000})
	}
	return scs
}

func c10HistParse(h string) (uint64, map[string]bool) {
	set := map[string]bool{}
	var el uint64
	if i := strings.Index(h, "|"); i >= 0 {
		fmt.Sscan(h[:i], &el)
		for _, u := range strings.Split(h[i+1:], "\x01") {
			if u != "" {
				set[u] = true
			}
		}
	}
	return el, set
}

// c10LiveApplied lists the "path=value" texts of the live applied values of a configuration.
func c10LiveApplied(c *configapi.Configuration) []string {
	var out []string
	for path, pv := range c.Status.Applied.Values {
		// a value whose index lies beyond the applied index belongs to an apply whose record write did not happen (the
		// store writes values and record in two steps: a crash or a version conflict in between – the recorded C15
		// finding); the configuration does not count it as applied yet and the apply will be repeated
		if pv.Deleted || pv.Index > c.Status.Applied.Index {
			continue
		}
		if g, err := valuesv2.NativeTypeToGnmiTypedValue(&pv.Value); err == nil {
			out = append(out, path+"="+c17Norm(g))
		}
	}
	sort.Strings(out)
	return out
}

// c10HistoryMonitor judges a transition against the device's own history (a history variable kept by the simulated
// device: what it accepted in the newest term; it does not depend on what the stores say about synchronisation): a
// change may only be sent in a term in which the device has already been sent everything that was applied before, and a
// configuration may only be declared synchronized in a term in which the device has been sent every applied value.
func c10HistoryMonitor(vf, vt *StoreView, tr Trans, res *StepResult) (string, string) {
	if res == nil || res.DevHist == nil {
		return "", ""
	}
	for target, reqs := range res.DevLog {
		cf := vf.CfgOf(target)
		if cf == nil || tr.Ctrl != cProp {
			continue
		}
		for _, rq := range reqs {
			if rq.Code != "OK" {
				continue
			}
			seen := map[string]bool{}
			for _, u := range rq.Seen {
				seen[u] = true
			}
			for _, u := range rq.Updates {
				seen[u] = true // what this very request carries is being sent now
			}
			for _, u := range c10LiveApplied(cf) {
				if (rq.Election != rq.SeenEl && !contains(rq.Updates, u)) || !seen[u] {
					return "apply-before-resync-in-term/device-history", fmt.Sprintf("%s sends a change to device %s with election id %d, but in that term the device has not been sent the applied value %s (so far it accepted %d values, the newest term used towards it is %d)", tr.String(), target, rq.Election, u, len(seen), rq.SeenEl)
				}
			}
		}
	}
	if tr.Ctrl == cCfg {
		for id, ct := range vt.Cfgs {
			cf := vf.Cfgs[id]
			if cf == nil || ct.Status.State != configapi.ConfigurationStatus_SYNCHRONIZED || cf.Status.State == configapi.ConfigurationStatus_SYNCHRONIZED {
				continue
			}
			el, set := c10HistParse(res.DevHist[string(ct.TargetID)])
			for _, u := range c10LiveApplied(cf) {
				if uint64(ct.Status.Applied.Mastership.Term) != el || !set[u] {
					return "resync-incomplete/device-history", fmt.Sprintf("%s declares %s synchronized in term %d, but in that term the device has not been sent the applied value %s (it accepted %d values, the newest term used towards it is %d)", tr.String(), ct.TargetID, ct.Status.Applied.Mastership.Term, u, len(set), el)
				}
			}
		}
	}
	return "", ""
}

// c10Monitor judges one transition.
func c10Monitor(vf, vt *StoreView, tr Trans, res *StepResult) (string, string) {
	for id, ct := range vt.Cfgs {
		cf := vf.Cfgs[id]
		if cf == nil {
			continue
		}
		mf, mt := cf.Status.Mastership, ct.Status.Mastership
		if mt.Term < mf.Term {
			return "term-decreases", fmt.Sprintf("%s moves the mastership term of %s from %d to %d", tr.String(), ct.TargetID, mf.Term, mt.Term)
		}
		if mt.Master != "" && mt.Master != mf.Master && mt.Term <= mf.Term {
			return "new-master-without-new-term", fmt.Sprintf("%s assigns mastership of %s to %s (was %q) in term %d (was %d)", tr.String(), ct.TargetID, mt.Master, mf.Master, mt.Term, mf.Term)
		}
	}
	if res == nil {
		return "", ""
	}
	for target, reqs := range res.DevLog {
		cf := vf.CfgOf(target)
		if cf == nil {
			return "write-without-configuration", fmt.Sprintf("%s writes to device %s", tr.String(), target)
		}
		for _, rq := range reqs {
			if rq.Election != uint64(cf.Status.Mastership.Term) {
				return "write-with-wrong-election-id", fmt.Sprintf("%s writes to device %s with election id %d, the mastership term is %d", tr.String(), target, rq.Election, cf.Status.Mastership.Term)
			}
			if rq.Conn != cf.Status.Mastership.Master {
				return "write-over-non-master-connection", fmt.Sprintf("%s writes to device %s over connection %s, the master is %q", tr.String(), target, rq.Conn, cf.Status.Mastership.Master)
			}
		}
		switch tr.Ctrl {
		case cProp:
			// a new change may only be sent once the applied configuration was re-sent in this term
			if cf.Status.Applied.Mastership.Term != cf.Status.Mastership.Term {
				return "apply-before-resync-in-term", fmt.Sprintf("%s sends a change to device %s in term %d although the configuration was last synchronized in term %d", tr.String(), target, cf.Status.Mastership.Term, cf.Status.Applied.Mastership.Term)
			}
		case cCfg:
			// the re-push must cover every value the device should already hold
			sent := map[string]bool{}
			for _, rq := range reqs {
				if rq.Code != "OK" {
					continue
				}
				for _, u := range rq.Updates {
					sent[u] = true
				}
			}
			ct := vt.CfgOf(target)
			if tr.Kind != "release" && ct != nil && ct.Status.State == configapi.ConfigurationStatus_SYNCHRONIZED && cf.Status.State != configapi.ConfigurationStatus_SYNCHRONIZED {
				for path, pv := range cf.Status.Applied.Values {
					if pv.Deleted {
						continue
					}
					g, err := valuesv2.NativeTypeToGnmiTypedValue(&pv.Value)
					if err != nil {
						continue
					}
					if !sent[path+"="+c17Norm(g)] {
						return "resync-incomplete", fmt.Sprintf("%s declares %s synchronized in term %d without re-sending applied value %s", tr.String(), target, ct.Status.Mastership.Term, path)
					}
				}
			}
		}
	}
	return "", ""
}

// c04RefDevice: what the device should hold: the changes of the transactions whose apply did not fail, in log order.
func c04RefDevice(v *StoreView, target string) (refCfg, bool) {
	ref := refCfg{}
	type pi struct {
		n uint64
		p *configapi.Proposal
	}
	var props []pi
	for id, p := range v.Props {
		t, n := proposalIndex(string(id))
		if t == target {
			props = append(props, pi{n, p})
		}
	}
	sort.Slice(props, func(i, j int) bool { return props[i].n < props[j].n })
	for _, e := range props {
		ap := e.p.Status.Phases.Apply
		if ap == nil {
			if e.p.Status.Phases.Abort != nil || (e.p.Status.Phases.Validate != nil && e.p.Status.Phases.Validate.State == configapi.ProposalValidatePhase_FAILED) {
				continue
			}
			return nil, false // a transaction is still in flight
		}
		switch ap.State {
		case configapi.ProposalApplyPhase_FAILED:
			continue
		case configapi.ProposalApplyPhase_APPLIED:
		default:
			return nil, false
		}
		var values map[string]*configapi.PathValue
		if c := e.p.GetChange(); c != nil {
			values = c.Values
		} else {
			values = e.p.Status.RollbackValues
		}
		var ops []refOp
		for path, pv := range values {
			if pv.Deleted {
				ops = append(ops, refOp{Delete: true, Path: path})
			} else if g, err := valuesv2.NativeTypeToGnmiTypedValue(&pv.Value); err == nil {
				ops = append(ops, refOp{Path: path, Val: c17Norm(g)})
			}
		}
		ref = ref.apply(ops)
	}
	return ref, true
}

// c04Terminal: nothing can act any more. If the target is connected, mastered and reported synchronized, the device
// must hold exactly the reference; the CONTROLS relation must exist iff the connection exists.
func c04Terminal(w *World, target string) (string, string) {
	v := w.View()
	conn := string(w.conns.LiveConn(topoID(target)))
	rel := ""
	for _, l := range w.topo.Canon() {
		if strings.HasPrefix(l, "rel ") && strings.HasSuffix(l, "->"+target) {
			rel += strings.Fields(l)[1] + " "
		}
	}
	rel = strings.TrimSpace(rel)
	if rel != conn {
		return "controls-relation-differs-from-connection", fmt.Sprintf("nothing can act any more: target %s has connection %q but CONTROLS relation(s) %q", target, conn, rel)
	}
	cfg := v.CfgOf(target)
	if cfg == nil || conn == "" || cfg.Status.Mastership.Master != conn || cfg.Status.State != configapi.ConfigurationStatus_SYNCHRONIZED {
		if cfg != nil && conn != "" {
			return "connected-target-not-synchronized", fmt.Sprintf("nothing can act any more: target %s is connected over %s but its configuration is %s with master %q (term %d, synchronized in term %d)", target, conn, cfg.Status.State, cfg.Status.Mastership.Master, cfg.Status.Mastership.Term, cfg.Status.Applied.Mastership.Term)
		}
		return "", ""
	}
	ref, settled := c04RefDevice(v, target)
	if !settled {
		return "transaction-in-flight-at-the-end", fmt.Sprintf("nothing can act any more, target %s connected and synchronized, but a transaction has not finished: %s", target, v.Canon())
	}
	dev := w.devices[target].Content()
	if missing, extra, wrong := diffLeaves(ref, dev); len(missing)+len(extra)+len(wrong) > 0 {
		cl := "device-differs-from-stored-configuration"
		if len(missing) > 0 && len(extra) == 0 {
			cl += "/values-missing-on-device"
		} else if len(extra) > 0 && len(missing) == 0 {
			cl += "/stale-values-on-device"
		}
		return cl, fmt.Sprintf("nothing can act any more, target %s connected (%s), master in term %d, SYNCHRONIZED: device lacks %v, holds unexpected %v, differs in %v; reference %s", target, conn, cfg.Status.Mastership.Term, missing, extra, wrong, ref)
	}
	return "", ""
}

func checkC10(rc *RunCtx) *Report {
	rep := newReport("model_checking")
	scs := c10Scenarios(rc.Thorough())
	for _, sc := range scs {
		sc.Cfg.TrackDeviceHistory = true
	}
	if rc.Replay != "" {
		replayE1(rc, rep, scs)
		return rep
	}
	runMonitorCheck(rc, rep, scs, nil, func(sc *Scenario, vf, vt *StoreView, auxBefore string, tr Trans, res *StepResult) (string, string) {
		if cl, text := c10Monitor(vf, vt, tr, res); cl != "" {
			return cl, text
		}
		return c10HistoryMonitor(vf, vt, tr, res)
	}, nil, func(sc *Scenario, x *Explorer, s *E1State, cands *candidates) {
		x.W.Restore(s.snap)
		// relation <=> connection at the end
		if cl, text := c04Terminal(x.W, "T1"); cl == "controls-relation-differs-from-connection" {
			cands.consider(x, rep, sc, s, cl, fmt.Sprintf("scenario %q: %s", sc.Name, text), func(w *World) (bool, string) {
				c2, t2 := c04Terminal(w, "T1")
				return c2 == cl, t2
			})
		}
	})
	return rep
}

// c04Extra: scenarios of C04 only (the C10 monitors have nothing to say about them).
func c04Extra(thorough bool) []*Scenario {
	a := func(leaf, v string) SetReqOrCall { return setReq("T1."+leaf+"="+v, upd("T1", "/cont/"+leaf, v)) }
	one := WorldConfig{Targets: []string{"T1"}}
	return []*Scenario{
		{Name: "S6 Set refused by the device, second Set, connected; the device restarts empty anywhere", Cfg: one,
			Init: func(w *World) {
				connectAll("T1")(w)
				w.devices["T1"].script = []codes.Code{codes.InvalidArgument} // the first apply is refused; later requests are accepted
			},
			Requests: []SetReqOrCall{a("leafA", "1"), a("leafA2", "2")}, Faults: []FaultSpec{faultDeviceRestart("T1")}, FaultBudget: 1},
		{Name: "S7 Set while T1 is offline, a Set the model rejects, then the device connects", Cfg: one,
			Init: func(w *World) {
				w.plugins["T1"].SetVerdict(rejectIf(func(f map[string]string) bool { return f["/cont/leafA2"] == "bad" }, "leafA2 must not be bad"))
			},
			Requests: []SetReqOrCall{a("leafA", "1"), a("leafA2", "bad"), setReq("T1.sub/leafC=c", upd("T1", "/cont/sub/leafC", "c"))}, Faults: []FaultSpec{faultConnUp("T1")}, FaultBudget: 1},
		{Name: "S5i Set on T1 connected; the device restarts empty twice; one step held at a store write while another controller runs", Cfg: one, Init: connectAll("T1"),
			Requests: []SetReqOrCall{a("leafA", "1")}, Faults: []FaultSpec{faultDeviceRestart("T1"), faultConnDown("T1"), faultConnUp("T1")}, FaultBudget: 3, InterleaveBudget: 1},
		// non-initial start state: committed offline, applied when the device shows up, re-sent after a restart
		{Name: "S5q leaf, delete of its container, leaf again - all committed while T1 is offline (before the exploration starts); the device connects and later restarts empty", Cfg: one,
			Prefix: []func(w *World) *Call{
				func(w *World) *Call {
					return w.GoSet(bgCtx(), setReq("sub/leafC=c", upd("T1", "/cont/sub/leafC", "c")).Set)
				},
				func(w *World) *Call { return w.GoSet(bgCtx(), setReq("del /cont/sub", del("T1", "/cont/sub")).Set) },
				func(w *World) *Call {
					return w.GoSet(bgCtx(), setReq("sub/leafC=5", upd("T1", "/cont/sub/leafC", "5")).Set)
				}},
			Faults: []FaultSpec{faultConnUp("T1"), faultDeviceRestart("T1")}, FaultBudget: 2, MapOrderDeviations: true},
		{Name: "S6d leaves applied on T1; a delete of their container that the device refuses, then a Set; connection lost and re-established anywhere", Cfg: one,
			Init: func(w *World) {
				connectAll("T1")(w)
				w.devices["T1"].refuse = map[string]codes.Code{"delete /cont/sub": codes.InvalidArgument}
			},
			Prefix: []func(w *World) *Call{func(w *World) *Call {
				return w.GoSet(bgCtx(), setReq("T1.leafA=1+sub/leafC=c", upd("T1", "/cont/leafA", "1"), upd("T1", "/cont/sub/leafC", "c")).Set)
			}},
			Requests: []SetReqOrCall{setReq("del /cont/sub", del("T1", "/cont/sub")), a("leafA2", "2")}, Faults: []FaultSpec{faultConnDown("T1"), faultConnUp("T1")}, FaultBudget: 2},
	}
}

func checkC04(rc *RunCtx) *Report {
	rep := newReport("model_checking")
	scs := append(c10Scenarios(rc.Thorough()), c04Extra(rc.Thorough())...)
	if rc.Replay != "" {
		replayE1(rc, rep, scs)
		return rep
	}
	runMonitorCheck(rc, rep, scs, nil, nil, nil, func(sc *Scenario, x *Explorer, s *E1State, cands *candidates) {
		if s.env.NextReq < len(sc.Requests) {
			return
		}
		x.W.Restore(s.snap)
		if cl, text := c04Terminal(x.W, "T1"); cl != "" && cl != "controls-relation-differs-from-connection" {
			cands.consider(x, rep, sc, s, cl, fmt.Sprintf("scenario %q: %s", sc.Name, text), func(w *World) (bool, string) {
				c2, t2 := c04Terminal(w, "T1")
				return c2 == cl, t2
			})
		}
	})
	return rep
}

func init() {
	registerBubble("C10", checkC10)
	registerBubble("C04", checkC04)
}

func contains(l []string, x string) bool {
	for _, y := range l {
		if y == x {
			return true
		}
	}
	return false
}
