package mc

import (
	"fmt"
	"sort"
	"strings"

	"github.com/openconfig/gnmi/proto/gnmi"
)

// refCfg is the boring reference model of one target's configuration: live leaves only, addressed by element lists.
type refCfg map[string]string // canonical textual path -> canonical value text (c17Norm)

func (r refCfg) clone() refCfg {
	c := refCfg{}
	for k, v := range r {
		c[k] = v
	}
	return c
}

// refOp is one operation of a Set request in reference terms.
type refOp struct {
	Delete bool
	Path   string // canonical textual absolute path
	Val    string // c17Norm text for updates
}

// apply gives the gNMI-sequential effect of one Set: deletes first, then replaces/updates.
// A delete removes the addressed node and everything beneath it at element boundaries; an element without keys
// addresses every entry of that list.
func (r refCfg) apply(ops []refOp) refCfg {
	out := r.clone()
	for _, op := range ops {
		if op.Delete {
			t := c18Split(op.Path)
			for p := range out {
				if c18Covers(t, c18Split(p)) {
					delete(out, p)
				}
			}
		}
	}
	for _, op := range ops {
		if !op.Delete {
			out[op.Path] = op.Val
		}
	}
	return out
}

// refMatch: does query q (elements may be "*", key values may be "*", an element "..." matches any number of
// elements) select leaf path p? The query selects p if it matches a prefix of p's element list.
func refMatch(q, p []c18Elem) bool {
	if len(q) == 0 {
		return true
	}
	if q[0].name == "..." {
		for i := 0; i <= len(p); i++ {
			if refMatch(q[1:], p[i:]) {
				return true
			}
		}
		return false
	}
	if len(p) == 0 {
		return false
	}
	if q[0].name != "*" && q[0].name != p[0].name {
		return false
	}
	for k, v := range q[0].keys {
		pv, ok := p[0].keys[k]
		if !ok || (v != "*" && v != pv) {
			return false
		}
	}
	return refMatch(q[1:], p[1:])
}

// get returns the live leaves selected by the textual query path.
func (r refCfg) get(query string) map[string]string {
	out := map[string]string{}
	q := refSplitQuery(query)
	for p, v := range r {
		if refMatch(q, c18Split(p)) {
			out[p] = v
		}
	}
	return out
}

func refSplitQuery(query string) []c18Elem {
	if query == "" || query == "/" {
		return nil
	}
	return c18Split(query)
}

func (r refCfg) String() string {
	keys := make([]string, 0, len(r))
	for k := range r {
		keys = append(keys, k)
	}
	sort.Strings(keys)
	var b strings.Builder
	b.WriteString("{")
	for _, k := range keys {
		fmt.Fprintf(&b, "%s=%s; ", k, r[k])
	}
	b.WriteString("}")
	return b.String()
}

func diffLeaves(want, got map[string]string) (missing, extra, wrong []string) {
	for p, v := range want {
		g, ok := got[p]
		if !ok {
			missing = append(missing, p)
		} else if g != v {
			wrong = append(wrong, fmt.Sprintf("%s: want %s got %s", p, v, g))
		}
	}
	for p := range got {
		if _, ok := want[p]; !ok {
			extra = append(extra, p)
		}
	}
	sort.Strings(missing)
	sort.Strings(extra)
	sort.Strings(wrong)
	return
}

// ---- request descriptions shared by the history-based checks ----

// ReqOp is one operation of a Set request in a form that can be stored in replay files.
type ReqOp struct {
	Kind   string   `json:"kind"` // delete | update | replace
	Target string   `json:"target,omitempty"`
	Path   string   `json:"path"`
	Val    string   `json:"val,omitempty"` // string value (StringVal) unless Typed is set
	Typed  *c17Case `json:"typed,omitempty"`
}

// SetReq is a Set request description.
type SetReq struct {
	Name         string  `json:"name"`
	PrefixTarget string  `json:"prefix_target,omitempty"`
	PrefixPath   string  `json:"prefix_path,omitempty"`
	Ops          []ReqOp `json:"ops"`
}

func (o ReqOp) value() *gnmi.TypedValue {
	if o.Typed != nil {
		return o.Typed.gnmi()
	}
	return gstr(o.Val)
}

// build makes the gNMI message (ops in the given order within each of delete/replace/update).
func (s SetReq) build() *gnmi.SetRequest {
	req := &gnmi.SetRequest{}
	if s.PrefixTarget != "" || s.PrefixPath != "" {
		req.Prefix = &gnmi.Path{Target: s.PrefixTarget}
		if s.PrefixPath != "" {
			req.Prefix.Elem = mustPath(s.PrefixPath).Elem
		}
	}
	for _, o := range s.Ops {
		p := mustPath(o.Path)
		p.Target = o.Target
		switch o.Kind {
		case "delete":
			req.Delete = append(req.Delete, p)
		case "replace":
			req.Replace = append(req.Replace, &gnmi.Update{Path: p, Val: o.value()})
		default:
			req.Update = append(req.Update, &gnmi.Update{Path: p, Val: o.value()})
		}
	}
	return req
}

// refOps gives the per-target reference operations of the request.
func (s SetReq) refOps() map[string][]refOp {
	out := map[string][]refOp{}
	for _, o := range s.Ops {
		t := o.Target
		if s.PrefixTarget != "" {
			t = s.PrefixTarget
		}
		path := o.Path
		if s.PrefixPath != "" {
			path = s.PrefixPath + o.Path
		}
		op := refOp{Delete: o.Kind == "delete", Path: path}
		if !op.Delete {
			op.Val = c17Norm(o.value())
		}
		out[t] = append(out[t], op)
	}
	return out
}
