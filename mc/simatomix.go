package mc

import (
	"context"
	"fmt"
	"net"
	"os"
	"sort"
	"strings"
	"sync"

	indexedmapv1 "github.com/atomix/atomix/api/runtime/indexedmap/v1"
	mapv1 "github.com/atomix/atomix/api/runtime/map/v1"
	"github.com/atomix/atomix/runtime/pkg/utils/grpc/interceptors"
	"google.golang.org/grpc"
	"google.golang.org/grpc/codes"
	"google.golang.org/grpc/credentials/insecure"
	"google.golang.org/grpc/metadata"
	"google.golang.org/grpc/status"
	"google.golang.org/grpc/test/bufconn"
)

// simAtomix is a deterministic in-process stand-in for the atomix runtime API (map.v1 and indexedmap.v1
// gRPC services) with what the real test cluster cannot offer: snapshot/restore, a crash fuse and an RPC log.
// Its behaviour is bound to the real atomix test cluster by the conformance check (conformance.go).
type simAtomix struct {
	mu      sync.Mutex
	version uint64
	maps    map[string]*simMap
	imaps   map[string]*simIMap
	streams map[*simStream]struct{}

	fuse *fuse // shared crash fuse / effect counter (may be nil)

	// gate, when set, is called without the lock held after an indexed-map Append was executed ("appended")
	// before an indexed-map Get is ("get") and after it was ("got"); it may block to hold the calling client at that point (C08).
	gate func(point, name, key string)

	// rpcGate, when set, is called at the start of every data RPC (not primitive Create/Close) that carries the
	// "verif-thread" metadata key; the E2 scheduler blocks the caller there until it is scheduled.
	rpcGate func(thread, method string)

	// writeGate, when set, is called when a write RPC (Put, Insert, Update, Remove, Append, Commit, Clear) arrives,
	// before it is executed (World.StepInterleaved holds a reconcile call there)
	writeGate func()
	conflicts int // writes refused because of a version precondition
	inCommit  bool

	lis *bufconn.Listener
	srv *grpc.Server
}

type simEntry struct {
	value   []byte
	version uint64
}

type simMap struct {
	entries map[string]*simEntry
}

type simIEntry struct {
	key     string
	index   uint64
	value   []byte
	version uint64
}

type simIMap struct {
	byKey     map[string]*simIEntry
	byIndex   map[uint64]*simIEntry
	lastIndex uint64
}

type simStream struct {
	name    string // primitive name
	indexed bool
	ch      chan interface{} // *mapv1.EventsResponse or *indexedmapv1.EventsResponse
}

func newSimAtomix(f *fuse) *simAtomix {
	s := &simAtomix{maps: map[string]*simMap{}, imaps: map[string]*simIMap{}, streams: map[*simStream]struct{}{}, fuse: f}
	s.lis = bufconn.Listen(1 << 20)
	s.srv = grpc.NewServer(grpc.UnaryInterceptor(s.gateUnary), grpc.StreamInterceptor(s.gateStream))
	mapv1.RegisterMapServer(s.srv, &simMapServer{s})
	mapv1.RegisterMapsServer(s.srv, &simMapsServer{s})
	indexedmapv1.RegisterIndexedMapServer(s.srv, &simIMapServer{s})
	indexedmapv1.RegisterIndexedMapsServer(s.srv, &simIMapsServer{s})
	go func() { _ = s.srv.Serve(s.lis) }()
	return s
}

func isWriteMethod(method string) bool {
	for _, m := range []string{"/Put", "/Insert", "/Update", "/Remove", "/Append", "/Commit", "/Clear"} {
		if strings.HasSuffix(method, m) {
			return true
		}
	}
	return false
}

func (s *simAtomix) gateCall(ctx context.Context, method string) {
	if wg := s.writeGate; wg != nil && isWriteMethod(method) {
		wg()
	}
	g := s.rpcGate
	if g == nil || strings.HasSuffix(method, "/Create") || strings.HasSuffix(method, "/Close") {
		return
	}
	if md, ok := metadata.FromIncomingContext(ctx); ok {
		if v := md.Get("verif-thread"); len(v) > 0 {
			g(v[0], method)
		}
	}
}

func (s *simAtomix) gateUnary(ctx context.Context, req interface{}, info *grpc.UnaryServerInfo, handler grpc.UnaryHandler) (interface{}, error) {
	s.gateCall(ctx, info.FullMethod)
	// split steps park at every data call of a reconcile step, reads included (Create / Close are issued under the
	// stores' mutexes and are never held)
	if !strings.HasSuffix(info.FullMethod, "/Create") && !strings.HasSuffix(info.FullMethod, "/Close") {
		s.fuse.Gate("store")
	}
	return handler(ctx, req)
}

func (s *simAtomix) gateStream(srv interface{}, ss grpc.ServerStream, info *grpc.StreamServerInfo, handler grpc.StreamHandler) error {
	s.gateCall(ss.Context(), info.FullMethod)
	return handler(srv, ss)
}

// Connect implements primitive.Client.
func (s *simAtomix) Connect(ctx context.Context) (*grpc.ClientConn, error) {
	return grpc.DialContext(ctx, "simatomix",
		grpc.WithContextDialer(func(ctx context.Context, _ string) (net.Conn, error) { return s.lis.DialContext(ctx) }),
		grpc.WithTransportCredentials(insecure.NewCredentials()),
		grpc.WithChainUnaryInterceptor(interceptors.ErrorHandlingUnaryClientInterceptor()),
		grpc.WithChainStreamInterceptor(interceptors.ErrorHandlingStreamClientInterceptor()))
}

func (s *simAtomix) Stop() { s.srv.Stop() }

var errCrashed = status.Error(codes.Internal, "simatomix: process crashed (fuse blown)")

// enter is called at the start of every RPC with the lock held.
func (s *simAtomix) enter() error {
	if s.fuse.Crashed() {
		return errCrashed
	}
	return nil
}

// effect is called for every successful write with the lock held, before it is applied.
func (s *simAtomix) effect(desc string) error {
	if !s.fuse.Effect(desc) {
		return errCrashed
	}
	return nil
}

func (s *simAtomix) getMap(name string) *simMap {
	m, ok := s.maps[name]
	if !ok {
		m = &simMap{entries: map[string]*simEntry{}}
		s.maps[name] = m
	}
	return m
}

func (s *simAtomix) getIMap(name string) *simIMap {
	m, ok := s.imaps[name]
	if !ok {
		m = &simIMap{byKey: map[string]*simIEntry{}, byIndex: map[uint64]*simIEntry{}}
		s.imaps[name] = m
	}
	return m
}

func (s *simAtomix) publish(name string, indexed bool, ev interface{}) {
	for st := range s.streams {
		if st.name == name && st.indexed == indexed {
			select {
			case st.ch <- ev:
			default:
				panic("simatomix: event stream buffer overflow")
			}
		}
	}
}

// ---- snapshot / restore ----

type simSnapshot struct {
	version uint64
	maps    map[string]map[string]simEntry
	imaps   map[string]simIMapSnap
}

type simIMapSnap struct {
	entries   []simIEntry
	lastIndex uint64
}

func (s *simAtomix) Snapshot() *simSnapshot {
	s.mu.Lock()
	defer s.mu.Unlock()
	snap := &simSnapshot{version: s.version, maps: map[string]map[string]simEntry{}, imaps: map[string]simIMapSnap{}}
	for n, m := range s.maps {
		c := make(map[string]simEntry, len(m.entries))
		for k, e := range m.entries {
			c[k] = *e // value slices are never mutated in place
		}
		snap.maps[n] = c
	}
	for n, m := range s.imaps {
		is := simIMapSnap{lastIndex: m.lastIndex}
		for _, e := range m.byIndex {
			is.entries = append(is.entries, *e)
		}
		snap.imaps[n] = is
	}
	return snap
}

// Restore replaces the content with the snapshot. No event is published; open streams stay open.
func (s *simAtomix) Restore(snap *simSnapshot) {
	s.mu.Lock()
	defer s.mu.Unlock()
	s.version = snap.version
	s.maps = map[string]*simMap{}
	for n, m := range snap.maps {
		sm := &simMap{entries: make(map[string]*simEntry, len(m))}
		for k, e := range m {
			ec := e
			sm.entries[k] = &ec
		}
		s.maps[n] = sm
	}
	s.imaps = map[string]*simIMap{}
	for n, is := range snap.imaps {
		im := &simIMap{byKey: map[string]*simIEntry{}, byIndex: map[uint64]*simIEntry{}, lastIndex: is.lastIndex}
		for _, e := range is.entries {
			ec := e
			im.byKey[ec.key] = &ec
			im.byIndex[ec.index] = &ec
		}
		s.imaps[n] = im
	}
}

// Dump returns the raw content (primitive name -> key -> value bytes) for canonicalisation by the caller.
func (s *simAtomix) Dump() (maps map[string]map[string][]byte, imaps map[string][]simIEntry) {
	s.mu.Lock()
	defer s.mu.Unlock()
	maps = map[string]map[string][]byte{}
	for n, m := range s.maps {
		c := map[string][]byte{}
		for k, e := range m.entries {
			c[k] = e.value
		}
		maps[n] = c
	}
	imaps = map[string][]simIEntry{}
	for n, m := range s.imaps {
		var l []simIEntry
		for _, e := range m.byIndex {
			l = append(l, *e)
		}
		sort.Slice(l, func(i, j int) bool { return l[i].index < l[j].index })
		imaps[n] = l
	}
	return
}

// ---- map service ----

type simMapsServer struct{ s *simAtomix }

func (m *simMapsServer) Create(ctx context.Context, r *mapv1.CreateRequest) (*mapv1.CreateResponse, error) {
	m.s.mu.Lock()
	defer m.s.mu.Unlock()
	if err := m.s.enter(); err != nil {
		return nil, err
	}
	m.s.getMap(r.ID.Name)
	return &mapv1.CreateResponse{}, nil
}

func (m *simMapsServer) Close(ctx context.Context, r *mapv1.CloseRequest) (*mapv1.CloseResponse, error) {
	return &mapv1.CloseResponse{}, nil
}

type simMapServer struct{ s *simAtomix }

func (m *simMapServer) Create(ctx context.Context, r *mapv1.CreateRequest) (*mapv1.CreateResponse, error) {
	return (&simMapsServer{m.s}).Create(ctx, r)
}
func (m *simMapServer) Close(ctx context.Context, r *mapv1.CloseRequest) (*mapv1.CloseResponse, error) {
	return &mapv1.CloseResponse{}, nil
}

func (m *simMapServer) Size(ctx context.Context, r *mapv1.SizeRequest) (*mapv1.SizeResponse, error) {
	m.s.mu.Lock()
	defer m.s.mu.Unlock()
	if err := m.s.enter(); err != nil {
		return nil, err
	}
	return &mapv1.SizeResponse{Size_: uint32(len(m.s.getMap(r.ID.Name).entries))}, nil
}

// mapOp applies one write to a map with the lock held; used by the single RPCs and by Commit.
// kind: put insert update remove
func (s *simAtomix) mapCheck(mp *simMap, kind, key string, prevVersion uint64) error {
	e, ok := mp.entries[key]
	switch kind {
	case "insert":
		if ok {
			return status.Errorf(codes.AlreadyExists, "key '%s' already exists", key)
		}
	case "update", "remove":
		if !ok {
			return status.Errorf(codes.NotFound, "key '%s' not found", key)
		}
		if prevVersion != 0 && e.version != prevVersion {
			s.conflicts++
			return status.Errorf(codes.Aborted, "entry version %d does not match update version %d", e.version, prevVersion)
		}
	case "put":
		if prevVersion != 0 && (!ok || e.version != prevVersion) {
			s.conflicts++
			return status.Errorf(codes.Aborted, "entry version does not match update version %d", prevVersion)
		}
	}
	return nil
}

func (s *simAtomix) mapApply(name string, mp *simMap, kind, key string, value []byte) (newVersion uint64, prev *simEntry) {
	old := mp.entries[key]
	switch kind {
	case "insert", "update", "put":
		if !s.inCommit {
			s.version++
		}
		mp.entries[key] = &simEntry{value: value, version: s.version}
		if old == nil {
			s.publish(name, false, &mapv1.EventsResponse{Event: mapv1.Event{Key: key, Event: &mapv1.Event_Inserted_{Inserted: &mapv1.Event_Inserted{
				Value: mapv1.VersionedValue{Value: value, Version: s.version}}}}})
		} else {
			s.publish(name, false, &mapv1.EventsResponse{Event: mapv1.Event{Key: key, Event: &mapv1.Event_Updated_{Updated: &mapv1.Event_Updated{
				Value:     mapv1.VersionedValue{Value: value, Version: s.version},
				PrevValue: mapv1.VersionedValue{Value: old.value, Version: old.version}}}}})
		}
		return s.version, old
	case "remove":
		if old == nil {
			// the key was already removed by an earlier operation of the same commit
			if os.Getenv("VERIF_DEBUG") != "" {
				fmt.Printf("simatomix: commit on %s removes %q twice\n", name, key)
			}
			return 0, &simEntry{}
		}
		delete(mp.entries, key)
		if !s.inCommit {
			s.version++ // the removal consumes a log index too
		}
		s.publish(name, false, &mapv1.EventsResponse{Event: mapv1.Event{Key: key, Event: &mapv1.Event_Removed_{Removed: &mapv1.Event_Removed{
			Value: mapv1.VersionedValue{Value: old.value, Version: old.version}}}}})
		return 0, old
	}
	panic(kind)
}

func (m *simMapServer) Put(ctx context.Context, r *mapv1.PutRequest) (*mapv1.PutResponse, error) {
	m.s.mu.Lock()
	defer m.s.mu.Unlock()
	if err := m.s.enter(); err != nil {
		return nil, err
	}
	mp := m.s.getMap(r.ID.Name)
	if err := m.s.mapCheck(mp, "put", r.Key, r.PrevVersion); err != nil {
		return nil, err
	}
	if err := m.s.effect(fmt.Sprintf("map %s put %s", r.ID.Name, r.Key)); err != nil {
		return nil, err
	}
	v, prev := m.s.mapApply(r.ID.Name, mp, "put", r.Key, r.Value)
	resp := &mapv1.PutResponse{Version: v}
	if prev != nil {
		resp.PrevValue = &mapv1.VersionedValue{Value: prev.value, Version: prev.version}
	}
	return resp, nil
}

func (m *simMapServer) Insert(ctx context.Context, r *mapv1.InsertRequest) (*mapv1.InsertResponse, error) {
	m.s.mu.Lock()
	defer m.s.mu.Unlock()
	if err := m.s.enter(); err != nil {
		return nil, err
	}
	mp := m.s.getMap(r.ID.Name)
	if err := m.s.mapCheck(mp, "insert", r.Key, 0); err != nil {
		return nil, err
	}
	if err := m.s.effect(fmt.Sprintf("map %s insert %s", r.ID.Name, r.Key)); err != nil {
		return nil, err
	}
	v, _ := m.s.mapApply(r.ID.Name, mp, "insert", r.Key, r.Value)
	return &mapv1.InsertResponse{Version: v}, nil
}

func (m *simMapServer) Update(ctx context.Context, r *mapv1.UpdateRequest) (*mapv1.UpdateResponse, error) {
	m.s.mu.Lock()
	defer m.s.mu.Unlock()
	if err := m.s.enter(); err != nil {
		return nil, err
	}
	mp := m.s.getMap(r.ID.Name)
	if err := m.s.mapCheck(mp, "update", r.Key, r.PrevVersion); err != nil {
		return nil, err
	}
	if err := m.s.effect(fmt.Sprintf("map %s update %s", r.ID.Name, r.Key)); err != nil {
		return nil, err
	}
	v, prev := m.s.mapApply(r.ID.Name, mp, "update", r.Key, r.Value)
	return &mapv1.UpdateResponse{Version: v, PrevValue: mapv1.VersionedValue{Value: prev.value, Version: prev.version}}, nil
}

func (m *simMapServer) Get(ctx context.Context, r *mapv1.GetRequest) (*mapv1.GetResponse, error) {
	m.s.mu.Lock()
	defer m.s.mu.Unlock()
	if err := m.s.enter(); err != nil {
		return nil, err
	}
	e, ok := m.s.getMap(r.ID.Name).entries[r.Key]
	if !ok {
		return nil, status.Errorf(codes.NotFound, "key '%s' not found", r.Key)
	}
	return &mapv1.GetResponse{Value: mapv1.VersionedValue{Value: e.value, Version: e.version}}, nil
}

func (m *simMapServer) Remove(ctx context.Context, r *mapv1.RemoveRequest) (*mapv1.RemoveResponse, error) {
	m.s.mu.Lock()
	defer m.s.mu.Unlock()
	if err := m.s.enter(); err != nil {
		return nil, err
	}
	mp := m.s.getMap(r.ID.Name)
	if err := m.s.mapCheck(mp, "remove", r.Key, r.PrevVersion); err != nil {
		return nil, err
	}
	if err := m.s.effect(fmt.Sprintf("map %s remove %s", r.ID.Name, r.Key)); err != nil {
		return nil, err
	}
	_, prev := m.s.mapApply(r.ID.Name, mp, "remove", r.Key, nil)
	return &mapv1.RemoveResponse{Value: mapv1.VersionedValue{Value: prev.value, Version: prev.version}}, nil
}

func (m *simMapServer) Clear(ctx context.Context, r *mapv1.ClearRequest) (*mapv1.ClearResponse, error) {
	m.s.mu.Lock()
	defer m.s.mu.Unlock()
	if err := m.s.enter(); err != nil {
		return nil, err
	}
	mp := m.s.getMap(r.ID.Name)
	if err := m.s.effect(fmt.Sprintf("map %s clear", r.ID.Name)); err != nil {
		return nil, err
	}
	keys := make([]string, 0, len(mp.entries))
	for k := range mp.entries {
		keys = append(keys, k)
	}
	sort.Strings(keys)
	for _, k := range keys {
		m.s.mapApply(r.ID.Name, mp, "remove", k, nil)
	}
	return &mapv1.ClearResponse{}, nil
}

func (m *simMapServer) Lock(ctx context.Context, r *mapv1.LockRequest) (*mapv1.LockResponse, error) {
	return nil, status.Error(codes.Unimplemented, "simatomix: Lock")
}
func (m *simMapServer) Unlock(ctx context.Context, r *mapv1.UnlockRequest) (*mapv1.UnlockResponse, error) {
	return nil, status.Error(codes.Unimplemented, "simatomix: Unlock")
}

func (m *simMapServer) Commit(ctx context.Context, r *mapv1.CommitRequest) (*mapv1.CommitResponse, error) {
	m.s.mu.Lock()
	defer m.s.mu.Unlock()
	if err := m.s.enter(); err != nil {
		return nil, err
	}
	mp := m.s.getMap(r.ID.Name)
	// all preconditions are checked against the state before the commit; the commit is atomic
	for _, op := range r.Operations {
		var err error
		switch o := op.Operation.(type) {
		case *mapv1.CommitRequest_Operation_Put:
			err = m.s.mapCheck(mp, "put", o.Put.Key, o.Put.PrevVersion)
		case *mapv1.CommitRequest_Operation_Insert:
			err = m.s.mapCheck(mp, "insert", o.Insert.Key, 0)
		case *mapv1.CommitRequest_Operation_Update:
			err = m.s.mapCheck(mp, "update", o.Update.Key, o.Update.PrevVersion)
		case *mapv1.CommitRequest_Operation_Remove:
			err = m.s.mapCheck(mp, "remove", o.Remove.Key, o.Remove.PrevVersion)
		}
		if err != nil {
			return nil, err
		}
	}
	if err := m.s.effect(fmt.Sprintf("map %s commit[%d]", r.ID.Name, len(r.Operations))); err != nil {
		return nil, err
	}
	resp := &mapv1.CommitResponse{}
	// one commit is one log entry: everything it writes carries the same version (as on the real runtime)
	m.s.version++
	m.s.inCommit = true
	defer func() { m.s.inCommit = false }()
	for _, op := range r.Operations {
		switch o := op.Operation.(type) {
		case *mapv1.CommitRequest_Operation_Put:
			v, prev := m.s.mapApply(r.ID.Name, mp, "put", o.Put.Key, o.Put.Value)
			res := &mapv1.CommitResponse_Put{Version: v}
			if prev != nil {
				res.PrevValue = &mapv1.VersionedValue{Value: prev.value, Version: prev.version}
			}
			resp.Results = append(resp.Results, mapv1.CommitResponse_Result{Result: &mapv1.CommitResponse_Result_Put{Put: res}})
		case *mapv1.CommitRequest_Operation_Insert:
			v, _ := m.s.mapApply(r.ID.Name, mp, "insert", o.Insert.Key, o.Insert.Value)
			resp.Results = append(resp.Results, mapv1.CommitResponse_Result{Result: &mapv1.CommitResponse_Result_Insert{Insert: &mapv1.CommitResponse_Insert{Version: v}}})
		case *mapv1.CommitRequest_Operation_Update:
			v, prev := m.s.mapApply(r.ID.Name, mp, "update", o.Update.Key, o.Update.Value)
			resp.Results = append(resp.Results, mapv1.CommitResponse_Result{Result: &mapv1.CommitResponse_Result_Update{Update: &mapv1.CommitResponse_Update{
				Version: v, PrevValue: mapv1.VersionedValue{Value: prev.value, Version: prev.version}}}})
		case *mapv1.CommitRequest_Operation_Remove:
			_, prev := m.s.mapApply(r.ID.Name, mp, "remove", o.Remove.Key, nil)
			resp.Results = append(resp.Results, mapv1.CommitResponse_Result{Result: &mapv1.CommitResponse_Result_Remove{Remove: &mapv1.CommitResponse_Remove{
				Value: mapv1.VersionedValue{Value: prev.value, Version: prev.version}}}})
		}
	}
	return resp, nil
}

func (m *simMapServer) Entries(r *mapv1.EntriesRequest, srv mapv1.Map_EntriesServer) error {
	m.s.mu.Lock()
	if err := m.s.enter(); err != nil {
		m.s.mu.Unlock()
		return err
	}
	mp := m.s.getMap(r.ID.Name)
	keys := make([]string, 0, len(mp.entries))
	for k := range mp.entries {
		keys = append(keys, k)
	}
	sort.Strings(keys)
	var out []*mapv1.EntriesResponse
	for _, k := range keys {
		e := mp.entries[k]
		out = append(out, &mapv1.EntriesResponse{Entry: mapv1.Entry{Key: k, Value: &mapv1.VersionedValue{Value: e.value, Version: e.version}}})
	}
	m.s.mu.Unlock()
	for _, o := range out {
		if err := srv.Send(o); err != nil {
			return err
		}
	}
	if r.Watch {
		<-srv.Context().Done()
	}
	return nil
}

func (m *simMapServer) Events(r *mapv1.EventsRequest, srv mapv1.Map_EventsServer) error {
	st := &simStream{name: r.ID.Name, ch: make(chan interface{}, 1<<14)}
	m.s.mu.Lock()
	if err := m.s.enter(); err != nil {
		m.s.mu.Unlock()
		return err
	}
	m.s.getMap(r.ID.Name)
	m.s.streams[st] = struct{}{}
	m.s.mu.Unlock()
	defer func() {
		m.s.mu.Lock()
		delete(m.s.streams, st)
		m.s.mu.Unlock()
	}()
	// the real runtime acknowledges the subscription with an empty response
	if err := srv.Send(&mapv1.EventsResponse{}); err != nil {
		return err
	}
	for {
		select {
		case ev := <-st.ch:
			resp := ev.(*mapv1.EventsResponse)
			if r.Key != "" && resp.Event.Key != r.Key {
				continue
			}
			if err := srv.Send(resp); err != nil {
				return err
			}
		case <-srv.Context().Done():
			return nil
		}
	}
}

// ---- indexed map service ----

type simIMapsServer struct{ s *simAtomix }

func (m *simIMapsServer) Create(ctx context.Context, r *indexedmapv1.CreateRequest) (*indexedmapv1.CreateResponse, error) {
	m.s.mu.Lock()
	defer m.s.mu.Unlock()
	if err := m.s.enter(); err != nil {
		return nil, err
	}
	m.s.getIMap(r.ID.Name)
	return &indexedmapv1.CreateResponse{}, nil
}
func (m *simIMapsServer) Close(ctx context.Context, r *indexedmapv1.CloseRequest) (*indexedmapv1.CloseResponse, error) {
	return &indexedmapv1.CloseResponse{}, nil
}

type simIMapServer struct{ s *simAtomix }

func (m *simIMapServer) Create(ctx context.Context, r *indexedmapv1.CreateRequest) (*indexedmapv1.CreateResponse, error) {
	return (&simIMapsServer{m.s}).Create(ctx, r)
}
func (m *simIMapServer) Close(ctx context.Context, r *indexedmapv1.CloseRequest) (*indexedmapv1.CloseResponse, error) {
	return &indexedmapv1.CloseResponse{}, nil
}

func simIEntryPB(e *simIEntry) *indexedmapv1.Entry {
	return &indexedmapv1.Entry{Key: e.key, Index: e.index, Value: &indexedmapv1.VersionedValue{Value: e.value, Version: e.version}}
}

func (m *simIMapServer) Size(ctx context.Context, r *indexedmapv1.SizeRequest) (*indexedmapv1.SizeResponse, error) {
	m.s.mu.Lock()
	defer m.s.mu.Unlock()
	if err := m.s.enter(); err != nil {
		return nil, err
	}
	return &indexedmapv1.SizeResponse{Size_: uint32(len(m.s.getIMap(r.ID.Name).byKey))}, nil
}

func (m *simIMapServer) Append(ctx context.Context, r *indexedmapv1.AppendRequest) (*indexedmapv1.AppendResponse, error) {
	if g := m.s.gate; g != nil {
		defer g("appended", r.ID.Name, r.Key)
	}
	m.s.mu.Lock()
	defer m.s.mu.Unlock()
	if err := m.s.enter(); err != nil {
		return nil, err
	}
	im := m.s.getIMap(r.ID.Name)
	if _, ok := im.byKey[r.Key]; ok {
		return nil, status.Errorf(codes.AlreadyExists, "key '%s' already exists", r.Key)
	}
	if err := m.s.effect(fmt.Sprintf("imap %s append %s", r.ID.Name, r.Key)); err != nil {
		return nil, err
	}
	im.lastIndex++
	m.s.version++
	e := &simIEntry{key: r.Key, index: im.lastIndex, value: r.Value, version: m.s.version}
	im.byKey[e.key] = e
	im.byIndex[e.index] = e
	m.s.publish(r.ID.Name, true, &indexedmapv1.EventsResponse{Event: indexedmapv1.Event{Key: e.key, Index: e.index,
		Event: &indexedmapv1.Event_Inserted_{Inserted: &indexedmapv1.Event_Inserted{Value: indexedmapv1.VersionedValue{Value: e.value, Version: e.version}}}}})
	return &indexedmapv1.AppendResponse{Entry: simIEntryPB(e)}, nil
}

func (im *simIMap) lookup(key string, index uint64) (*simIEntry, bool) {
	if index > 0 {
		e, ok := im.byIndex[index]
		if ok && key != "" && e.key != key {
			return nil, false
		}
		return e, ok
	}
	e, ok := im.byKey[key]
	return e, ok
}

func (m *simIMapServer) Update(ctx context.Context, r *indexedmapv1.UpdateRequest) (*indexedmapv1.UpdateResponse, error) {
	m.s.mu.Lock()
	defer m.s.mu.Unlock()
	if err := m.s.enter(); err != nil {
		return nil, err
	}
	im := m.s.getIMap(r.ID.Name)
	e, ok := im.lookup(r.Key, r.Index)
	if !ok {
		return nil, status.Errorf(codes.NotFound, "entry '%s'/%d not found", r.Key, r.Index)
	}
	if r.PrevVersion != 0 && e.version != r.PrevVersion {
		m.s.conflicts++
		return nil, status.Errorf(codes.Aborted, "entry version %d does not match update version %d", e.version, r.PrevVersion)
	}
	if err := m.s.effect(fmt.Sprintf("imap %s update %s", r.ID.Name, e.key)); err != nil {
		return nil, err
	}
	m.s.version++
	ne := &simIEntry{key: e.key, index: e.index, value: r.Value, version: m.s.version}
	im.byKey[ne.key] = ne
	im.byIndex[ne.index] = ne
	m.s.publish(r.ID.Name, true, &indexedmapv1.EventsResponse{Event: indexedmapv1.Event{Key: ne.key, Index: ne.index,
		Event: &indexedmapv1.Event_Updated_{Updated: &indexedmapv1.Event_Updated{
			Value:     indexedmapv1.VersionedValue{Value: ne.value, Version: ne.version},
			PrevValue: indexedmapv1.VersionedValue{Value: e.value, Version: e.version}}}}})
	return &indexedmapv1.UpdateResponse{Entry: simIEntryPB(ne)}, nil
}

func (m *simIMapServer) Get(ctx context.Context, r *indexedmapv1.GetRequest) (*indexedmapv1.GetResponse, error) {
	if g := m.s.gate; g != nil {
		g("get", r.ID.Name, r.Key)
		defer g("got", r.ID.Name, r.Key) // runs after the unlock below
	}
	m.s.mu.Lock()
	defer m.s.mu.Unlock()
	if err := m.s.enter(); err != nil {
		return nil, err
	}
	e, ok := m.s.getIMap(r.ID.Name).lookup(r.Key, r.Index)
	if !ok {
		return nil, status.Errorf(codes.NotFound, "entry '%s'/%d not found", r.Key, r.Index)
	}
	return &indexedmapv1.GetResponse{Entry: simIEntryPB(e)}, nil
}

func (im *simIMap) sorted() []*simIEntry {
	l := make([]*simIEntry, 0, len(im.byIndex))
	for _, e := range im.byIndex {
		l = append(l, e)
	}
	sort.Slice(l, func(i, j int) bool { return l[i].index < l[j].index })
	return l
}

func (m *simIMapServer) FirstEntry(ctx context.Context, r *indexedmapv1.FirstEntryRequest) (*indexedmapv1.FirstEntryResponse, error) {
	m.s.mu.Lock()
	defer m.s.mu.Unlock()
	if err := m.s.enter(); err != nil {
		return nil, err
	}
	l := m.s.getIMap(r.ID.Name).sorted()
	if len(l) == 0 {
		return nil, status.Error(codes.NotFound, "map is empty")
	}
	return &indexedmapv1.FirstEntryResponse{Entry: simIEntryPB(l[0])}, nil
}

func (m *simIMapServer) LastEntry(ctx context.Context, r *indexedmapv1.LastEntryRequest) (*indexedmapv1.LastEntryResponse, error) {
	m.s.mu.Lock()
	defer m.s.mu.Unlock()
	if err := m.s.enter(); err != nil {
		return nil, err
	}
	l := m.s.getIMap(r.ID.Name).sorted()
	if len(l) == 0 {
		return nil, status.Error(codes.NotFound, "map is empty")
	}
	return &indexedmapv1.LastEntryResponse{Entry: simIEntryPB(l[len(l)-1])}, nil
}

func (m *simIMapServer) PrevEntry(ctx context.Context, r *indexedmapv1.PrevEntryRequest) (*indexedmapv1.PrevEntryResponse, error) {
	m.s.mu.Lock()
	defer m.s.mu.Unlock()
	if err := m.s.enter(); err != nil {
		return nil, err
	}
	l := m.s.getIMap(r.ID.Name).sorted()
	for i := len(l) - 1; i >= 0; i-- {
		if l[i].index < r.Index {
			return &indexedmapv1.PrevEntryResponse{Entry: simIEntryPB(l[i])}, nil
		}
	}
	return nil, status.Error(codes.NotFound, "no previous entry")
}

func (m *simIMapServer) NextEntry(ctx context.Context, r *indexedmapv1.NextEntryRequest) (*indexedmapv1.NextEntryResponse, error) {
	m.s.mu.Lock()
	defer m.s.mu.Unlock()
	if err := m.s.enter(); err != nil {
		return nil, err
	}
	for _, e := range m.s.getIMap(r.ID.Name).sorted() {
		if e.index > r.Index {
			return &indexedmapv1.NextEntryResponse{Entry: simIEntryPB(e)}, nil
		}
	}
	return nil, status.Error(codes.NotFound, "no next entry")
}

func (m *simIMapServer) Remove(ctx context.Context, r *indexedmapv1.RemoveRequest) (*indexedmapv1.RemoveResponse, error) {
	m.s.mu.Lock()
	defer m.s.mu.Unlock()
	if err := m.s.enter(); err != nil {
		return nil, err
	}
	im := m.s.getIMap(r.ID.Name)
	e, ok := im.lookup(r.Key, r.Index)
	if !ok {
		return nil, status.Errorf(codes.NotFound, "entry '%s'/%d not found", r.Key, r.Index)
	}
	if r.PrevVersion != 0 && e.version != r.PrevVersion {
		m.s.conflicts++
		return nil, status.Errorf(codes.Aborted, "entry version %d does not match remove version %d", e.version, r.PrevVersion)
	}
	if err := m.s.effect(fmt.Sprintf("imap %s remove %s", r.ID.Name, e.key)); err != nil {
		return nil, err
	}
	delete(im.byKey, e.key)
	delete(im.byIndex, e.index)
	m.s.version++
	m.s.publish(r.ID.Name, true, &indexedmapv1.EventsResponse{Event: indexedmapv1.Event{Key: e.key, Index: e.index,
		Event: &indexedmapv1.Event_Removed_{Removed: &indexedmapv1.Event_Removed{Value: indexedmapv1.VersionedValue{Value: e.value, Version: e.version}}}}})
	return &indexedmapv1.RemoveResponse{Entry: simIEntryPB(e)}, nil
}

func (m *simIMapServer) Clear(ctx context.Context, r *indexedmapv1.ClearRequest) (*indexedmapv1.ClearResponse, error) {
	return nil, status.Error(codes.Unimplemented, "simatomix: indexed map Clear")
}

func (m *simIMapServer) Entries(r *indexedmapv1.EntriesRequest, srv indexedmapv1.IndexedMap_EntriesServer) error {
	m.s.mu.Lock()
	if err := m.s.enter(); err != nil {
		m.s.mu.Unlock()
		return err
	}
	var out []*indexedmapv1.EntriesResponse
	for _, e := range m.s.getIMap(r.ID.Name).sorted() {
		out = append(out, &indexedmapv1.EntriesResponse{Entry: *simIEntryPB(e)})
	}
	m.s.mu.Unlock()
	for _, o := range out {
		if err := srv.Send(o); err != nil {
			return err
		}
	}
	if r.Watch {
		<-srv.Context().Done()
	}
	return nil
}

func (m *simIMapServer) Events(r *indexedmapv1.EventsRequest, srv indexedmapv1.IndexedMap_EventsServer) error {
	st := &simStream{name: r.ID.Name, indexed: true, ch: make(chan interface{}, 1<<14)}
	m.s.mu.Lock()
	if err := m.s.enter(); err != nil {
		m.s.mu.Unlock()
		return err
	}
	m.s.getIMap(r.ID.Name)
	m.s.streams[st] = struct{}{}
	m.s.mu.Unlock()
	defer func() {
		m.s.mu.Lock()
		delete(m.s.streams, st)
		m.s.mu.Unlock()
	}()
	if err := srv.Send(&indexedmapv1.EventsResponse{}); err != nil {
		return err
	}
	for {
		select {
		case ev := <-st.ch:
			resp := ev.(*indexedmapv1.EventsResponse)
			if r.Key != "" && resp.Event.Key != r.Key {
				continue
			}
			if err := srv.Send(resp); err != nil {
				return err
			}
		case <-srv.Context().Done():
			return nil
		}
	}
}
