package mc

import (
	"context"
	"fmt"
	"google.golang.org/grpc/codes"
	"os"
	"sort"
	"strings"

	"github.com/onosproject/onos-api/go/onos/config/admin"
	configapi "github.com/onosproject/onos-api/go/onos/config/v2"
	"github.com/openconfig/gnmi/proto/gnmi"
)

func setReq(name string, ops ...ReqOp) SetReqOrCall {
	s := SetReq{Name: name, Ops: ops}
	return SetReqOrCall{Name: name, Set: s.build()}
}

func upd(target, path, val string) ReqOp {
	return ReqOp{Kind: "update", Target: target, Path: path, Val: val}
}
func del(target, path string) ReqOp { return ReqOp{Kind: "delete", Target: target, Path: path} }

func rollbackReq(name string, index uint64) SetReqOrCall {
	return SetReqOrCall{Name: name, Call: func(w *World) *Call {
		return w.GoCall(context.Background(), func(ctx context.Context) (interface{}, error) {
			return w.admin.RollbackTransaction(ctx, &admin.RollbackRequest{Index: configapi.Index(index)})
		})
	}}
}

func connectAll(targets ...string) func(w *World) {
	return func(w *World) {
		for _, t := range targets {
			w.conns.SetReachable(topoID(t), true)
		}
	}
}

func rejectIf(pred func(flat map[string]string) bool, msg string) verdictFn {
	return func(flat map[string]string) string {
		if pred(flat) {
			return msg
		}
		return ""
	}
}

func rejectAll(flat map[string]string) string { return "rejected by the model" }

// allObjectIDs lists every (controller, id) pair that names an existing object (plus the next transaction index).
func (w *World) allObjectIDs() []Token {
	if w.cfg.V3 {
		return w.allObjectIDs3()
	}
	v := w.View()
	var out []Token
	for _, t := range v.Txs {
		out = append(out, Token{Ctrl: cTx, ID: fmt.Sprint(uint64(t.Index))})
	}
	out = append(out, Token{Ctrl: cTx, ID: fmt.Sprint(len(v.Txs) + 1)})
	pids := make([]string, 0, len(v.Props))
	for id := range v.Props {
		pids = append(pids, string(id))
	}
	sort.Strings(pids)
	for _, id := range pids {
		out = append(out, Token{Ctrl: cProp, ID: id})
	}
	cids := make([]string, 0, len(v.Cfgs))
	for id := range v.Cfgs {
		cids = append(cids, string(id))
	}
	sort.Strings(cids)
	for _, id := range cids {
		out = append(out, Token{Ctrl: cCfg, ID: id}, Token{Ctrl: cMast, ID: id})
	}
	for _, t := range w.cfg.Targets {
		out = append(out, Token{Ctrl: cTarget, ID: t})
		if c := w.conns.LiveConn(topoID(t)); c != "" {
			out = append(out, Token{Ctrl: cConn, ID: string(c)})
		}
	}
	for _, l := range w.topo.Canon() {
		if strings.HasPrefix(l, "rel ") {
			out = append(out, Token{Ctrl: cConn, ID: strings.Fields(l)[1]})
		}
	}
	return out
}

func (w *World) allObjectIDsAt(s *WorldSnap) []Token {
	w.Restore(s)
	return w.allObjectIDs()
}

// c09Scenarios: name -> scenario
func c09Scenarios(thorough bool) []*Scenario {
	a := func(v string) SetReqOrCall { return setReq("T1.leafA="+v, upd("T1", "/cont/leafA", v)) }
	scs := []*Scenario{
		{Name: "S1 one Set on T1+T2, connected", Cfg: WorldConfig{Targets: []string{"T1", "T2"}}, Init: connectAll("T1", "T2"),
			Requests: []SetReqOrCall{setReq("T1.leafA=x+T2.leafA=y", upd("T1", "/cont/leafA", "x"), upd("T2", "/cont/leafA", "y"))}},
		{Name: "S2 two Sets on T1, connected", Cfg: WorldConfig{Targets: []string{"T1"}}, Init: connectAll("T1"),
			Requests: []SetReqOrCall{a("1"), a("2")}},
		{Name: "S2off two Sets on T1, offline", Cfg: WorldConfig{Targets: []string{"T1"}},
			Requests: []SetReqOrCall{a("1"), a("2")}},
		{Name: "S5 Set on T1 offline, then the device connects", Cfg: WorldConfig{Targets: []string{"T1"}},
			Requests: []SetReqOrCall{a("1")}, Faults: []FaultSpec{faultConnUp("T1")}, FaultBudget: 1},
		{Name: "S4 Set then rollback, connected", Cfg: WorldConfig{Targets: []string{"T1"}}, Init: connectAll("T1"),
			Requests: []SetReqOrCall{a("1"), rollbackReq("rollback(1)", 1)}},
		{Name: "S7 Set, rejected Set, connected", Cfg: WorldConfig{Targets: []string{"T1"}},
			Init: func(w *World) {
				connectAll("T1")(w)
				w.plugins["T1"].SetVerdict(rejectIf(func(f map[string]string) bool { return f["/cont/leafA"] == "bad" }, "leafA must not be bad"))
			},
			Requests: []SetReqOrCall{a("1"), a("bad")}},
		{Name: "S7b Set, rejected Set, Set, connected", Cfg: WorldConfig{Targets: []string{"T1"}},
			Init: func(w *World) {
				connectAll("T1")(w)
				w.plugins["T1"].SetVerdict(rejectIf(func(f map[string]string) bool { return f["/cont/leafA"] == "bad" }, "leafA must not be bad"))
			},
			Requests: []SetReqOrCall{a("1"), a("bad"), a("3")}},
		{Name: "S7c Set, rejected Set, Set, offline", Cfg: WorldConfig{Targets: []string{"T1"}},
			Init: func(w *World) {
				w.plugins["T1"].SetVerdict(rejectIf(func(f map[string]string) bool { return f["/cont/leafA"] == "bad" }, "leafA must not be bad"))
			},
			Requests: []SetReqOrCall{a("1"), a("bad"), a("3")}},
		{Name: "S6 two Sets on T1, device refuses the first", Cfg: WorldConfig{Targets: []string{"T1"}},
			Init: func(w *World) {
				connectAll("T1")(w)
				w.devices["T1"].script = []codes.Code{codes.InvalidArgument}
			},
			Requests: []SetReqOrCall{a("1"), a("2")}},
		{Name: "S8 rollback of a missing index, then a Set, connected", Cfg: WorldConfig{Targets: []string{"T1"}}, Init: connectAll("T1"),
			Requests: []SetReqOrCall{rollbackReq("rollback(7)", 7), a("1")}},
		{Name: "S5two two Sets on T1 offline, then the device connects", Cfg: WorldConfig{Targets: []string{"T1"}},
			Requests: []SetReqOrCall{a("1"), setReq("T1.leafA2=2", upd("T1", "/cont/leafA2", "2"))}, Faults: []FaultSpec{faultConnUp("T1")}, FaultBudget: 1},
		// non-initial start state: both changes are committed and wait to be applied when the device shows up; what
		// is explored is every delivery order of the connection, mastership, synchronisation and apply work
		{Name: "S5p two Sets committed on T1 while offline (before the exploration starts); then the device connects", Cfg: WorldConfig{Targets: []string{"T1"}},
			Prefix: []func(w *World) *Call{
				func(w *World) *Call { return w.GoSet(bgCtx(), a("1").Set) },
				func(w *World) *Call {
					return w.GoSet(bgCtx(), setReq("T1.leafA2=2", upd("T1", "/cont/leafA2", "2")).Set)
				}},
			Faults: []FaultSpec{faultConnUp("T1")}, FaultBudget: 1},
		{Name: "S7p a Set committed and a Set rejected by the model while T1 is offline (before the exploration starts); then the device connects", Cfg: WorldConfig{Targets: []string{"T1"}},
			Init: func(w *World) {
				w.plugins["T1"].SetVerdict(rejectIf(func(f map[string]string) bool { return f["/cont/leafA"] == "bad" }, "leafA must not be bad"))
			},
			Prefix: []func(w *World) *Call{
				func(w *World) *Call {
					return w.GoSet(bgCtx(), setReq("T1.leafA2=2", upd("T1", "/cont/leafA2", "2")).Set)
				},
				func(w *World) *Call { return w.GoSet(bgCtx(), a("bad").Set) }},
			Faults: []FaultSpec{faultConnUp("T1")}, FaultBudget: 1},
		{Name: "S9 Set on T1, Set on T2, Set on T1 (non-consecutive indexes per target), offline", Cfg: WorldConfig{Targets: []string{"T1", "T2"}}, MaxStates: 150000,
			Requests: []SetReqOrCall{a("1"), setReq("T2.leafA=2", upd("T2", "/cont/leafA", "2")), a("3")}},
		{Name: "S6u two Sets on T1, device unavailable once", Cfg: WorldConfig{Targets: []string{"T1"}},
			Init: func(w *World) {
				connectAll("T1")(w)
				w.devices["T1"].script = []codes.Code{codes.Unavailable}
			},
			Requests: []SetReqOrCall{a("1"), a("2")}},
	}
	return scs
}

type c09Stats struct {
	states, transitions, idle, fixedPointProbes int
}

func checkC09(rc *RunCtx) *Report {
	rep := newReport("model_checking")
	scs := c09Scenarios(rc.Thorough())
	if !rc.Thorough() {
		// the quick tier keeps the scenarios whose work-set graph stays below ~25 000 states
		var small []*Scenario
		for _, s := range scs {
			if strings.HasPrefix(s.Name, "S1 ") || strings.HasPrefix(s.Name, "S7b") || strings.HasPrefix(s.Name, "S7c") || strings.HasPrefix(s.Name, "S9 ") || strings.HasPrefix(s.Name, "S5two") {
				continue
			}
			small = append(small, s)
		}
		scs = small
	}
	if rc.Replay != "" {
		replayE1(rc, rep, scs)
		return rep
	}
	nums, extra := runSharded(rc, rep, len(scs), func(sh Shard, rep *Report) *ShardResult {
		out := newShardResult()
		for i, sc := range scs {
			if !sh.Mine(i) || (os.Getenv("VERIF_ONLY") != "" && !strings.Contains(sc.Name, os.Getenv("VERIF_ONLY"))) {
				continue
			}
			sc.Mode = QWorkSet
			if sc.MaxStates == 0 {
				sc.MaxStates = 400000
			}
			x := &Explorer{RC: rc, Rep: rep, Sc: sc}
			probes := 0
			cands := newCandidates(true)
			x.Hooks.OnState = func(x *Explorer, s *E1State) { c09IdleOracle(x, s, sc, cands, &probes) }
			x.Run()
			cands.resolve(x, rep, sc)
			fmt.Printf("C09 %-50s states=%d transitions=%d idle=%d depth=%d capped=%v probes=%d conflicts=%d\n", sc.Name, x.States, x.Transitions, x.IdleStates, x.MaxDepth, x.Capped, probes, x.conflicts)
			if n, diff := x.ValidateOnRealAtomix(envInt("VERIF_VALIDATE", 3)); diff != "" {
				rep.HarnessErr = "trace validation on the real atomix runtime: " + diff
			} else {
				out.Numbers["traces_validated"] += int64(n)
			}
			out.Numbers["states"] += int64(x.States)
			out.Numbers["transitions"] += int64(x.Transitions)
			out.Numbers["split_steps"] += int64(x.Splits)
			out.Numbers["map_order_deviations"] += int64(x.MapDeviations)
			out.Numbers["idle_states"] += int64(x.IdleStates)
			out.Numbers["fixed_point_probes"] += int64(probes)
			out.Numbers["conflict_steps"] += int64(x.conflicts)
			out.Numbers["candidates"] += int64(cands.total)
			out.Numbers["unconfirmed_candidates"] += int64(cands.unconfirmed)
			out.Numbers["confirm_search_nodes"] += int64(cands.nodes)
			out.Distinct["idle_outcomes"] = append(out.Distinct["idle_outcomes"], x.terminals.List()...)
			if x.Capped {
				rep.Exhaustive = false
			}
			if len(cands.notes) > 0 {
				out.Extra["unconfirmed: "+sc.Name] = cands.notes
			}
			out.Extra[sc.Name] = map[string]interface{}{"states": x.States, "transitions": x.Transitions, "idle_states": x.IdleStates, "max_depth": x.MaxDepth, "capped": x.Capped}
		}
		return out
	})
	rep.Coverage["scenarios"] = extra
	for name, v := range extra {
		fmt.Printf("  %-55s %v\n", name, v)
	}
	rep.Coverage["states"] = nums["states"]
	rep.Coverage["transitions"] = nums["transitions"]
	rep.Coverage["idle_states"] = nums["idle_states"]
	rep.Coverage["fixed_point_probes"] = nums["fixed_point_probes"]
	rep.Coverage["distinct_idle_outcomes"] = nums["distinct:idle_outcomes"]
	rep.Coverage["conflict_steps"] = nums["conflict_steps"]
	rep.Coverage["candidates_from_abstraction"] = nums["candidates"]
	rep.Coverage["unconfirmed_candidates"] = nums["unconfirmed_candidates"]
	rep.Coverage["confirm_search_nodes"] = nums["confirm_search_nodes"]
	rep.Coverage["traces_validated_against_impl"] = nums["traces_validated"]
	rep.Sample(3, map[string]interface{}{"scenarios": func() []string {
		var n []string
		for _, s := range scs {
			n = append(n, s.Name)
		}
		return n
	}()})
	return rep
}

// c09IdleOracle: on an idle state, (i) one more pass of every reconciler over every object has no effect,
// (ii) with all targets connected every transaction is final.
func c09IdleOracle(x *Explorer, s *E1State, sc *Scenario, cands *candidates, probesp *int) {
	rep := x.Rep
	probes := *probesp
	defer func() { *probesp = probes }()
	if !s.Idle() {
		return
	}
	w := x.W
	// (i) fixed point: re-examining any object changes nothing
	w.Restore(s.snap)
	for _, t := range w.allObjectIDs() {
		probes++
		res := w.Step(t.Ctrl, t.ID)
		if res.Effects > 0 || res.Panic != "" {
			t := t
			class := c09Class(w, s, t, res)
			what := fmt.Sprintf("scenario %q: controllers idle, but re-examining %s %s performs %v (panic %q)", sc.Name, t.Ctrl, t.ID, res.Writes, res.Panic)
			cands.consider(x, rep, sc, s, class, what, func(w *World) (bool, string) {
				r := w.Step(t.Ctrl, t.ID)
				return r.Effects > 0 || r.Panic != "", fmt.Sprintf("re-examining %s %s performs %v", t.Ctrl, t.ID, r.Writes)
			})
			w.Restore(s.snap)
		}
	}
	// (ii) all targets connected => every transaction final
	w.Restore(s.snap)
	allConnected := true
	for _, t := range sc.Cfg.Targets {
		if w.conns.LiveConn(topoID(t)) == "" {
			allConnected = false
		}
	}
	v := w.View()
	outcome := ""
	for _, t := range v.Txs {
		outcome += fmt.Sprintf("tx%d:%s ", t.Index, t.Status.State)
		if allConnected && !TxTerminal(t) {
			idx := t.Index
			cands.consider(x, rep, sc, s, "stranded/"+txPhasesText(t.Status.Phases),
				fmt.Sprintf("scenario %q: controllers idle with all targets connected, but transaction %d is %s (%s)", sc.Name, t.Index, t.Status.State, txPhasesText(t.Status.Phases)),
				func(w *World) (bool, string) {
					tx := w.View().Tx(idx)
					return tx != nil && !TxTerminal(tx), fmt.Sprintf("transaction %d is %s", idx, tx.Status.State)
				})
			w.Restore(s.snap)
		}
	}
	x.terminals.Add(sc.Name + outcome)

}

// c09Class names the cause of a non-fixed-point: which reconciler branch would still act.
func c09Class(w *World, s *E1State, t Token, res StepResult) string {
	if res.Panic != "" {
		return "panic/" + t.Ctrl
	}
	what := "other"
	if len(res.Writes) > 0 {
		f := strings.Fields(res.Writes[0])
		if len(f) >= 3 {
			what = f[0] + "-" + f[1] + "-" + f[2]
		}
	}
	phase := ""
	if t.Ctrl == cProp {
		v := w.View()
		if p, ok := v.Props[configapi.ProposalID(t.ID)]; ok {
			phase = propPhasesText(p.Status.Phases)
		}
	}
	return fmt.Sprintf("not-fixed-point/%s/%s/%s", t.Ctrl, what, phase)
}

var _ = gnmi.Encoding_PROTO

func init() { registerBubble("C09", checkC09) }
