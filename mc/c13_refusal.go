package mc

import (
	"context"
	"fmt"
	"sort"
	"strings"

	configapi "github.com/onosproject/onos-api/go/onos/config/v2"
	valuesv2 "github.com/onosproject/onos-config/pkg/utils/v2/values"
	"github.com/openconfig/gnmi/proto/gnmi"
	"github.com/openconfig/gnmi/proto/gnmi_ext"
)

// C13 – a refused Set changes nothing; targets and paths resolve as documented (E3h).

type c13Op struct {
	Kind  string `json:"kind"` // update replace delete
	Path  string `json:"path"` // relative to the prefix elems
	Val   string `json:"val,omitempty"`
	Valid bool   `json:"valid"` // valid under the given prefix
	Under string `json:"under"` // the prefix elems this relative path is meant for ("" = none)
}

// operations for requests without prefix elems and for requests with the prefix /cont
var c13Ops = []c13Op{
	{Kind: "update", Path: "/cont/leafA", Val: "x", Valid: true},
	{Kind: "replace", Path: "/cont/sub/leafC", Val: "c", Valid: true},
	{Kind: "update", Path: "/cont/list[name=a]/val", Val: "1", Valid: true},
	{Kind: "update", Path: "/cont/list[name=a]/name", Val: "a", Valid: true},
	{Kind: "delete", Path: "/cont/leafA2", Valid: true},
	{Kind: "delete", Path: "/cont/sub", Valid: true},
	{Kind: "update", Path: "/cont/nothing", Val: "1", Valid: false},
	{Kind: "update", Path: "/cont/list[name=b]/name", Val: "other", Valid: false}, // contradicts its key
	{Kind: "delete", Path: "/nothing", Valid: false},
	{Kind: "update", Path: "/leafA", Val: "x", Valid: true, Under: "/cont"},
	{Kind: "delete", Path: "/sub", Valid: true, Under: "/cont"},
	{Kind: "update", Path: "/list[name=a]/val", Val: "1", Valid: true, Under: "/cont"},
	{Kind: "update", Path: "/nothing", Val: "1", Valid: false, Under: "/cont"},
	{Kind: "update", Path: "/val", Val: "1", Valid: true, Under: "/cont/list[name=a]"},
	{Kind: "update", Path: "/name", Val: "a", Valid: true, Under: "/cont/list[name=a]"},
	{Kind: "update", Path: "/name", Val: "other", Valid: false, Under: "/cont/list[name=a]"}, // contradicts the key in the prefix
	{Kind: "delete", Path: "/sub2", Valid: true, Under: "/cont/list[name=a]"},
}

type c13ReqOp struct {
	Op     int    `json:"op"`
	Target string `json:"target"` // per-path target ("" none)
}

type c13Req struct {
	PrefixTarget string     `json:"prefix_target"`
	PrefixPath   string     `json:"prefix_path"` // prefix elems
	Ops          []c13ReqOp `json:"ops"`
	Limit        int        `json:"limit"`
	BadExt       bool       `json:"bad_ext"`
}

func (r c13Req) build() *gnmi.SetRequest {
	req := &gnmi.SetRequest{}
	if r.PrefixTarget != "" || r.PrefixPath != "" {
		req.Prefix = &gnmi.Path{Target: r.PrefixTarget}
		if r.PrefixPath != "" {
			req.Prefix.Elem = mustPath(r.PrefixPath).Elem
		}
	}
	for _, ro := range r.Ops {
		o := c13Ops[ro.Op]
		p := mustPath(o.Path)
		p.Target = ro.Target
		switch o.Kind {
		case "delete":
			req.Delete = append(req.Delete, p)
		case "replace":
			req.Replace = append(req.Replace, &gnmi.Update{Path: p, Val: gstr(o.Val)})
		default:
			req.Update = append(req.Update, &gnmi.Update{Path: p, Val: gstr(o.Val)})
		}
	}
	if r.BadExt {
		req.Extension = append(req.Extension, &gnmi_ext.Extension{Ext: &gnmi_ext.Extension_RegisteredExt{RegisteredExt: &gnmi_ext.RegisteredExtension{Id: configapi.TransactionStrategyExtensionID, Msg: []byte{0xff, 0xff, 0xff}}}})
	}
	return req
}

// known targets: T1, T2 configurable with plugin; T3 configurable without plugin; TX unknown to topo
var c13TargetOK = map[string]bool{"T1": true, "T2": true}

// expect gives the reference verdict: refused, or the change map target -> path -> value ("D" for delete).
func (r c13Req) expect() (refused bool, why string, change map[string]map[string]string) {
	if r.BadExt {
		return true, "malformed extension", nil
	}
	if len(r.Ops) == 0 {
		return true, "no operations", nil
	}
	change = map[string]map[string]string{}
	total := 0
	for _, ro := range r.Ops {
		o := c13Ops[ro.Op]
		target := ro.Target
		if r.PrefixTarget != "" {
			target = r.PrefixTarget
		}
		if !c13TargetOK[target] {
			return true, fmt.Sprintf("unknown target or model %q", target), nil
		}
		if !o.Valid {
			return true, "invalid path or key", nil
		}
		path := r.PrefixPath + o.Path
		if change[target] == nil {
			change[target] = map[string]string{}
		}
		v := "D"
		if o.Kind != "delete" {
			v = c17Norm(gstr(o.Val))
		}
		change[target][path] = v
		total++
	}
	if r.Limit > 0 {
		if len(change) != 1 {
			return true, "more than one target under a size limit", nil
		}
		if total > r.Limit {
			return true, "more operations than the limit", nil
		}
	}
	return false, "", change
}

func c13ChangeText(m map[string]map[string]string) string {
	var ts []string
	for t := range m {
		ts = append(ts, t)
	}
	sort.Strings(ts)
	var b strings.Builder
	for _, t := range ts {
		var ps []string
		for p, v := range m[t] {
			ps = append(ps, p+"="+v)
		}
		sort.Strings(ps)
		b.WriteString(t + "{" + strings.Join(ps, ";") + "} ")
	}
	return b.String()
}

func c13Logged(tx *configapi.Transaction) map[string]map[string]string {
	out := map[string]map[string]string{}
	ch := tx.GetChange()
	if ch == nil {
		return out
	}
	for t, pvs := range ch.Values {
		out[string(t)] = map[string]string{}
		if pvs == nil {
			continue
		}
		for key, pv := range pvs.Values {
			if pv == nil {
				out[string(t)][key] = "NIL"
				continue
			}
			if pv.Deleted {
				out[string(t)][pv.Path] = "D"
			} else if g, err := valuesv2.NativeTypeToGnmiTypedValue(&pv.Value); err == nil {
				out[string(t)][pv.Path] = c17Norm(g)
			}
			if key != pv.Path {
				out[string(t)]["KEY!="+key] = pv.Path
			}
		}
	}
	return out
}

func checkC13(rc *RunCtx) *Report {
	rep := newReport("exploration")
	maxOps := 2
	if rc.Thorough() {
		maxOps = 3
	}
	pathTargets := []string{"", "T1", "T2", "TX", "T3"}
	var reqs []c13Req
	if rc.Replay != "" {
		var r c13Req
		if err := loadReplay(rc.Replay, "request", &r); err != nil {
			rep.HarnessErr = err.Error()
			return rep
		}
		reqs = []c13Req{r}
	} else {
		for _, pt := range []string{"", "T1", "TX"} {
			for _, pc := range []string{"", "/cont", "/cont/list[name=a]"} {
				var opIdx []int
				for i, o := range c13Ops {
					if o.Under == pc {
						opIdx = append(opIdx, i)
					}
				}
				var rec func(cur []c13ReqOp)
				rec = func(cur []c13ReqOp) {
					if len(cur) > 0 || true {
						limits := []int{0, 1, 2}
						for _, l := range limits {
							reqs = append(reqs, c13Req{PrefixTarget: pt, PrefixPath: pc, Ops: append([]c13ReqOp{}, cur...), Limit: l})
						}
						if len(cur) == 1 {
							reqs = append(reqs, c13Req{PrefixTarget: pt, PrefixPath: pc, Ops: append([]c13ReqOp{}, cur...), BadExt: true})
						}
					}
					if len(cur) == maxOps {
						return
					}
					for _, oi := range opIdx {
						dup := false
						for _, c := range cur {
							if c13Ops[c.Op].Path == c13Ops[oi].Path || (strings.HasSuffix(c13Ops[c.Op].Path, "/name") && strings.HasSuffix(c13Ops[oi].Path, "/name")) {
								dup = true
							}
						}
						if dup {
							continue
						}
						tgts := pathTargets
						if maxOps >= 3 && len(cur) >= 1 {
							tgts = []string{"", "T1", "T2"}
						}
						for _, t := range tgts {
							rec(append(cur, c13ReqOp{Op: oi, Target: t}))
						}
					}
				}
				rec(nil)
			}
		}
	}
	worlds := map[int]*HistWorld{}
	snaps := map[int]*WorldSnap{}
	nums, _ := runSharded(rc, rep, defaultWorkers(), func(sh Shard, rep *Report) *ShardResult {
		out := newShardResult()
		distinct := hashSet{}
		evals, refusedN, acceptedN := 0, 0, 0
		for i, r := range reqs {
			if !sh.Mine(i) {
				continue
			}
			hw, ok := worlds[r.Limit]
			if !ok {
				hw = NewHistWorld(WorldConfig{Targets: []string{"T1", "T2", "T3"}, NoPlugin: map[string]bool{"T3": true}, SetSizeLimit: r.Limit}, false)
				// one earlier accepted Set so that "changes no configuration" has something to compare
				hw.ExecSet(context.Background(), SetReq{Ops: []ReqOp{upd("T1", "/cont/leafA2", "old"), upd("T2", "/cont/leafA2", "old")}}.build(), nil)
				worlds[r.Limit] = hw
				snaps[r.Limit] = hw.W.Snapshot()
				if r.Limit > 0 && len(hw.W.View().Txs) != 0 {
					// (the preparing two-target Set is itself refused under a limit: prepare per target instead)
				}
			}
			w := hw.W
			w.Restore(snaps[r.Limit])
			beforeTx := len(w.View().Txs)
			beforeCfg := c03StoredKey(w)
			call := w.GoSet(context.Background(), r.build())
			w.Settle()
			evals++
			replay := map[string]interface{}{"kind": "c13", "request": r}
			expRefused, why, expChange := r.expect()
			v := w.View()
			logged := len(v.Txs) > beforeTx
			desc := fmt.Sprintf("prefix target %q, prefix path %q, limit %d, ops %s", r.PrefixTarget, r.PrefixPath, r.Limit, c13OpsText(r))
			if call.Panic != "" {
				rep.Violate("panic", fmt.Sprintf("%s: handler panics: %s", desc, call.Panic), replay)
			} else if expRefused {
				refusedN++
				distinct.Add("refused:" + why)
				if logged {
					rep.Violate("refusable-request-logged/"+strings.Fields(why)[0], fmt.Sprintf("%s must be refused (%s) but a transaction was logged: %s", desc, why, c13ChangeText(c13Logged(v.Txs[len(v.Txs)-1]))), replay)
				} else if !call.Done || call.Err == nil {
					rep.Violate("refusable-request-not-answered-with-error", fmt.Sprintf("%s must be refused (%s): done=%v err=%v", desc, why, call.Done, call.Err), replay)
				}
				if c03StoredKey(w) != beforeCfg {
					rep.Violate("refused-request-changed-configuration", fmt.Sprintf("%s: configuration changed", desc), replay)
				}
			} else {
				acceptedN++
				distinct.Add("accepted:" + c13ChangeText(expChange))
				if !logged {
					rep.Violate("valid-request-refused", fmt.Sprintf("%s is valid but was refused: %v", desc, call.Err), replay)
				} else if got := c13ChangeText(c13Logged(v.Txs[len(v.Txs)-1])); got != c13ChangeText(expChange) {
					cl := "operation-lands-elsewhere"
					if r.PrefixTarget != "" {
						cl += "/with-prefix-target"
					}
					if r.PrefixPath != "" {
						cl += "/with-prefix-path"
					}
					rep.Violate(cl, fmt.Sprintf("%s: logged change %s, expected %s", desc, got, c13ChangeText(expChange)), replay)
				}
			}
			if !call.Done {
				call.Cancel()
				w.Settle()
			}
			if evals%397 == 5 {
				rep.Sample(4, r)
			}
		}
		out.Numbers["evaluations"] = int64(evals)
		out.Numbers["refused"] = int64(refusedN)
		out.Numbers["accepted"] = int64(acceptedN)
		out.Distinct["outcomes"] = distinct.List()
		return out
	})
	rep.Coverage["evaluations"] = nums["evaluations"]
	rep.Coverage["distinct_nontrivial"] = nums["distinct:outcomes"]
	rep.Coverage["expected_refused"] = nums["refused"]
	rep.Coverage["expected_accepted"] = nums["accepted"]
	rep.Coverage["rule"] = fmt.Sprintf("every Set request of 0..%d operations (distinct paths) over %d operations (valid updates/replaces/deletes of leaves, list entries, key leaves, containers; unknown path, key-contradicting key leaf, unknown delete path) x per-path target in {none,T1,T2,TX unknown,T3 no plugin} x prefix target in {none,T1,TX} x prefix elems in {none,/cont,/cont/list[name=a]} x GNMI_SET_SIZE_LIMIT in {0,1,2}, plus a malformed strategy extension; through the real handler on a world holding an earlier change; expected-refused => error, log and every configuration unchanged; expected-accepted => the logged change map equals {effective target -> {prefix+path -> value|delete}}; non-trivial = distinct expected outcomes", maxOps, len(c13Ops))
	return rep
}

func c13OpsText(r c13Req) string {
	var parts []string
	for _, ro := range r.Ops {
		o := c13Ops[ro.Op]
		parts = append(parts, fmt.Sprintf("%s %s@%q", o.Kind, o.Path, ro.Target))
	}
	if r.BadExt {
		parts = append(parts, "malformed extension")
	}
	return "[" + strings.Join(parts, ", ") + "]"
}

func init() { registerBubble("C13", checkC13) }
