package mc

import (
	"context"
	"fmt"
	"sort"
	"strings"

	configapi "github.com/onosproject/onos-api/go/onos/config/v2"
	valuesv2 "github.com/onosproject/onos-config/pkg/utils/v2/values"
)

// C05 – nothing becomes configuration without passing the target's model.
//
// Engine: E1a with document-dependent verdicts; monitor on the commit transition of every proposal: the last document
// the fake plugin received for that proposal, flattened by the independent flattener, must be, leaf for leaf, the live
// stored configuration right after the commit. Aux memory: per proposal the flattened document of its last validation.
// Plus: document sizes across the 100 kB chunk boundary (E3h).

func c05DocText(doc []byte) string {
	flat, _, err := flattenMiniDoc(doc)
	if err != nil {
		return "UNPARSABLE:" + err.Error()
	}
	flat = withoutKeyLeaves(flat)
	keys := make([]string, 0, len(flat))
	for k, v := range flat {
		keys = append(keys, k+"="+v)
	}
	sort.Strings(keys)
	return strings.Join(keys, ";")
}

func c05LiveText(c *configapi.Configuration) string {
	var keys []string
	for path, pv := range c.Values {
		if pv.Deleted || c18IsKeyLeaf(path) {
			continue
		}
		g, err := valuesv2.NativeTypeToGnmiTypedValue(&pv.Value)
		if err != nil {
			keys = append(keys, path+"=ERR:"+err.Error())
			continue
		}
		keys = append(keys, path+"="+normToJSONText(c17Norm(g)))
	}
	sort.Strings(keys)
	return strings.Join(keys, ";")
}

func c05Aux(prev string, tr Trans, res *StepResult) string {
	if res == nil || tr.Ctrl != cProp || len(res.Docs) == 0 {
		return prev
	}
	m := map[string]string{}
	for _, f := range strings.Split(prev, "\x01") {
		if kv := strings.SplitN(f, "\x02", 2); len(kv) == 2 {
			m[kv[0]] = kv[1]
		}
	}
	for _, docs := range res.Docs {
		last := docs[len(docs)-1]
		verdict := "rejected:"
		if last.Valid {
			verdict = "accepted:"
		}
		m[tr.ID] = verdict + c05DocText(last.Doc)
	}
	keys := make([]string, 0, len(m))
	for k := range m {
		keys = append(keys, k)
	}
	sort.Strings(keys)
	var parts []string
	for _, k := range keys {
		parts = append(parts, k+"\x02"+m[k])
	}
	return strings.Join(parts, "\x01")
}

func c05AuxGet(aux, id string) (string, bool) {
	for _, f := range strings.Split(aux, "\x01") {
		if kv := strings.SplitN(f, "\x02", 2); len(kv) == 2 && kv[0] == id {
			return kv[1], true
		}
	}
	return "", false
}

func c05Monitor(vf, vt *StoreView, auxBefore string, tr Trans, res *StepResult) (string, string) {
	if tr.Ctrl != cProp || (tr.Kind != "step") {
		return "", ""
	}
	target, n := proposalIndex(tr.ID)
	cf, ct := vf.CfgOf(target), vt.CfgOf(target)
	if ct == nil {
		return "", ""
	}
	var from configapi.Index
	if cf != nil {
		from = cf.Status.Committed.Index
	}
	if cfgValuesText(cf) == cfgValuesText(ct) || ct.Status.Committed.Index == from {
		return "", ""
	}
	// this step merged proposal n
	p := vt.Props[configapi.ProposalID(tr.ID)]
	if p != nil && p.GetRollback() != nil {
		// a rollback is validated like a change; same rule
	}
	doc, ok := c05AuxGet(auxBefore, tr.ID)
	if !ok {
		return "commit-without-validation", fmt.Sprintf("%s merges transaction %d into %s but the model plugin never saw a document for it", tr.String(), n, target)
	}
	if strings.HasPrefix(doc, "rejected:") {
		return "commit-of-rejected-document", fmt.Sprintf("%s merges transaction %d into %s although the plugin rejected it", tr.String(), n, target)
	}
	seen := strings.TrimPrefix(doc, "accepted:")
	if live := c05LiveText(ct); live != seen {
		return "validated-document-differs-from-committed-configuration", fmt.Sprintf("%s merges transaction %d into %s: the plugin accepted {%s} but the readable configuration is now {%s}", tr.String(), n, target, seen, live)
	}
	return "", ""
}

// c05StateOracle is the same rule as a state invariant (it also sees a commit that was lost or torn by a crash, which
// no single transition shows): when the last proposal merged into a configuration is marked COMMITTED, the readable
// configuration is, leaf for leaf, the document the plugin accepted for that proposal.
func c05StateOracle(v *StoreView, aux string) (string, string) {
	for _, c := range v.Cfgs {
		n := c.Status.Committed.Index
		// the last proposal really merged: aborted proposals move the committed index past themselves without
		// touching the values
		var p *configapi.Proposal
		id := ""
		for ; n > 0; n-- {
			id = fmt.Sprintf("%s-%d", c.TargetID, n)
			p = v.Props[configapi.ProposalID(id)]
			if p == nil || p.Status.Phases.Abort != nil || (p.Status.Phases.Validate != nil && p.Status.Phases.Validate.State == configapi.ProposalValidatePhase_FAILED) {
				p = nil
				continue
			}
			break
		}
		if p == nil || p.Status.Phases.Commit == nil || p.Status.Phases.Commit.State != configapi.ProposalCommitPhase_COMMITTED {
			continue
		}
		doc, ok := c05AuxGet(aux, id)
		if !ok || !strings.HasPrefix(doc, "accepted:") {
			continue // judged by the transition monitor
		}
		seen := strings.TrimPrefix(doc, "accepted:")
		live := c05LiveText(c)
		if live == seen {
			continue
		}
		// the values and the record are two writes: while a later proposal's commit is under way (or was cut short by
		// a crash and will be re-done) the values may already be the document accepted for that proposal
		ok = false
		for pid, q := range v.Props {
			t, m := proposalIndex(string(pid))
			if t != string(c.TargetID) || configapi.Index(m) <= n || q.Status.Phases.Commit == nil {
				continue
			}
			if d, has := c05AuxGet(aux, string(pid)); has && d == "accepted:"+live {
				ok = true
			}
		}
		if !ok {
			return "validated-document-differs-from-committed-configuration/at-rest", fmt.Sprintf("proposal %s is COMMITTED and is the last one merged into %s: the plugin accepted {%s} but the readable configuration is {%s}, which is not the accepted document of a later proposal being committed either", id, c.TargetID, seen, live)
		}
	}
	return "", ""
}

func c05Scenarios(thorough bool) []*Scenario {
	a := func(leaf, v string) SetReqOrCall { return setReq("T1."+leaf+"="+v, upd("T1", "/cont/"+leaf, v)) }
	// the model forbids leafA and leafA2 together: the second Set must be judged on top of the first one's result
	both := func(w *World) {
		w.plugins["T1"].SetVerdict(rejectIf(func(f map[string]string) bool {
			_, a := f["/cont/leafA"]
			_, b := f["/cont/leafA2"]
			return a && b
		}, "leafA and leafA2 exclude each other"))
	}
	scs := []*Scenario{
		{Name: "S2x two Sets on T1 that exclude each other", Cfg: WorldConfig{Targets: []string{"T1"}}, Init: both,
			Requests: []SetReqOrCall{a("leafA", "1"), a("leafA2", "2")}},
		{Name: "S2d Set, then a Set deleting its container and writing a sibling", Cfg: WorldConfig{Targets: []string{"T1"}},
			Requests: []SetReqOrCall{setReq("T1.leafA=1+leafB=7", upd("T1", "/cont/leafA", "1"), upd("T1", "/cont/sub/leafC", "c")),
				setReq("del sub + leafA2", del("T1", "/cont/sub"), upd("T1", "/cont/leafA2", "2"))}},
		{Name: "S4x Set, Set, rollback of the second, with the exclusion rule", Cfg: WorldConfig{Targets: []string{"T1"}}, Init: both,
			Requests: []SetReqOrCall{a("leafA", "1"), a("sub/leafC", "c"), rollbackReq("rollback(2)", 2)}},
		{Name: "S3y Set on T1, then a Set on T1+T2 that T2's model rejects", Cfg: WorldConfig{Targets: []string{"T1", "T2"}},
			Init: func(w *World) {
				w.plugins["T2"].SetVerdict(rejectIf(func(f map[string]string) bool { return f["/cont/leafA"] == "bad" }, "leafA must not be bad"))
			},
			Requests: []SetReqOrCall{a("leafA", "1"), setReq("T1.leafA2=2+T2.leafA=bad", upd("T1", "/cont/leafA2", "2"), upd("T2", "/cont/leafA", "bad"))}},
		{Name: "S3x Set on T1+T2 and a neighbour on T1 that excludes it", Cfg: WorldConfig{Targets: []string{"T1", "T2"}}, Init: both,
			Requests: []SetReqOrCall{setReq("T1.leafA=x+T2.leafA=y", upd("T1", "/cont/leafA", "x"), upd("T2", "/cont/leafA", "y")), a("leafA2", "z")}},
	}
	scs = append(scs,
		&Scenario{Name: "S2c Set, then a Set overwriting it and adding a leaf, one crash", Cfg: WorldConfig{Targets: []string{"T1"}},
			Requests: []SetReqOrCall{a("leafA", "1"), setReq("T1.leafA=2+leafA2=2", upd("T1", "/cont/leafA", "2"), upd("T1", "/cont/leafA2", "2"))}, CrashBudget: 1},
		&Scenario{Name: "S4y Set, Set, rollback of the first", Cfg: WorldConfig{Targets: []string{"T1"}},
			Requests: []SetReqOrCall{a("leafA", "1"), a("sub/leafC", "c"), rollbackReq("rollback(1)", 1)}})
	if thorough {
		scs = append(scs, &Scenario{Name: "S2xc two excluding Sets on T1, one crash", Cfg: WorldConfig{Targets: []string{"T1"}}, Init: both,
			Requests: []SetReqOrCall{a("leafA", "1"), a("leafA2", "2")}, CrashBudget: 1},
			&Scenario{Name: "S3t three Sets on T1, the third excluded by the first", Cfg: WorldConfig{Targets: []string{"T1"}}, Init: both,
				Requests: []SetReqOrCall{a("leafA", "1"), a("sub/leafC", "c"), a("leafA2", "2")}})
	}
	return scs
}

// c05Sizes: documents whose size straddles the 100 kB chunk boundary, through the real Set path.
func c05Sizes(rep *Report) (int, int) {
	evals, distinct := 0, 0
	hw := NewHistWorld(WorldConfig{Targets: []string{"T1"}}, false)
	w := hw.W
	base := w.Snapshot()
	// the document for {"cont":{"leafA":"<value>"}} rendered by MarshalIndent has a fixed overhead; find it once
	probe := func(n int) (pluginDoc, string, bool) {
		w.Restore(base)
		w.plugins["T1"].TakeDocs()
		val := strings.Repeat("v", n)
		res := hw.ExecSet(context.Background(), SetReq{Name: "big", Ops: []ReqOp{upd("T1", "/cont/leafA", val)}}.build(), nil)
		docs := res.Docs["T1"]
		if res.Err != nil || len(docs) == 0 {
			fmt.Printf("size probe n=%d: err=%v done=%v docs=%d steps=%d\n", n, res.Err, res.Done, len(docs), res.Steps)
			return pluginDoc{}, val, false
		}
		return docs[len(docs)-1], val, true
	}
	d0, _, ok := probe(10)
	if !ok {
		rep.Violate("sizes/harness", "cannot run the size probe", nil)
		return 0, 0
	}
	overhead := len(d0.Doc) - 10
	for _, size := range []int{99999, 100000, 100001, 199999, 200000, 200001, 300000} {
		evals++
		d, val, ok := probe(size - overhead)
		replay := map[string]interface{}{"kind": "c05-size", "size": size}
		if !ok {
			rep.Violate("sizes/set-refused", fmt.Sprintf("a Set whose candidate document has %d bytes is refused", size), replay)
			continue
		}
		distinct++
		if len(d.Doc) != size {
			rep.Violate("sizes/bytes-lost", fmt.Sprintf("the candidate document has %d bytes, the plugin received %d bytes in chunks %v", size, len(d.Doc), d.Chunks), replay)
		}
		for _, c := range d.Chunks {
			if c > 100000 || c == 0 {
				rep.Violate("sizes/chunk-size", fmt.Sprintf("document of %d bytes sent in chunks %v", size, d.Chunks), replay)
			}
		}
		flat, _, err := flattenMiniDoc(d.Doc)
		if err != nil || flat["/cont/leafA"] != val {
			rep.Violate("sizes/document-content", fmt.Sprintf("document of %d bytes does not carry the leaf as set (parse error %v)", size, err), replay)
		}
		got, err := w.GetProto(GetQuery{Target: "T1"})
		if err != nil || got["/cont/leafA"] != c17Norm(gstr(val)) {
			rep.Violate("sizes/readable", fmt.Sprintf("after the Set of a %d byte document Get does not return the value (err %v)", size, err), replay)
		}
	}
	// multi-byte characters across the chunk boundary: a string of 2-byte (é) and of 3-byte (☃) characters, shifted by
	// 0..2 ASCII characters so that for some shift a character straddles byte 100 000 of the document
	for _, ch := range []string{"é", "☃"} {
		for shift := 0; shift < len(ch); shift++ {
			evals++
			val := strings.Repeat("a", shift) + strings.Repeat(ch, 140000/len(ch))
			w.Restore(base)
			w.plugins["T1"].TakeDocs()
			res := hw.ExecSet(context.Background(), SetReq{Name: "big-utf8", Ops: []ReqOp{upd("T1", "/cont/leafA", val)}}.build(), nil)
			replay := map[string]interface{}{"kind": "c05-size", "size": len(val), "char": ch, "shift": shift}
			docs := res.Docs["T1"]
			if res.Err != nil || len(docs) == 0 {
				rep.Violate("sizes/set-refused", fmt.Sprintf("a Set of a %d byte string of %q characters is refused: %v", len(val), ch, res.Err), replay)
				continue
			}
			distinct++
			d := docs[len(docs)-1]
			if len(d.Doc) != overhead+len(val) {
				rep.Violate("sizes/bytes-lost", fmt.Sprintf("string of %q characters (shift %d): the candidate document has %d bytes, the plugin received %d bytes in chunks %v", ch, shift, overhead+len(val), len(d.Doc), d.Chunks), replay)
			}
			flat, _, err := flattenMiniDoc(d.Doc)
			if err != nil || flat["/cont/leafA"] != val {
				rep.Violate("sizes/document-content", fmt.Sprintf("string of %q characters (shift %d): the document the plugin received does not carry the leaf as set (parse error %v)", ch, shift, err), replay)
			}
			got, err := w.GetProto(GetQuery{Target: "T1"})
			if err != nil || got["/cont/leafA"] != c17Norm(gstr(val)) {
				rep.Violate("sizes/readable", fmt.Sprintf("string of %q characters (shift %d): Get does not return the value (err %v)", ch, shift, err), replay)
			}
		}
	}
	return evals, distinct
}

func checkC05(rc *RunCtx) *Report {
	rep := newReport("model_checking")
	scs := c05Scenarios(rc.Thorough())
	if rc.Replay != "" {
		replayE1(rc, rep, scs)
		return rep
	}
	runMonitorCheck(rc, rep, scs, c05Aux, func(sc *Scenario, vf, vt *StoreView, auxBefore string, tr Trans, res *StepResult) (string, string) {
		return c05Monitor(vf, vt, auxBefore, tr, res)
	}, func(sc *Scenario, x *Explorer, s *E1State, cands *candidates) {
		x.W.Restore(s.snap)
		aux := s.aux
		if cl, text := c05StateOracle(x.W.fastView(), aux); cl != "" {
			cands.consider(x, rep, sc, s, cl, fmt.Sprintf("scenario %q: %s", sc.Name, text), func(w *World) (bool, string) {
				c2, t2 := c05StateOracle(w.View(), aux)
				return c2 == cl, t2
			})
		}
	})
	if rc.Worker == "" {
		e, d := c05Sizes(rep)
		rep.Coverage["size_cases"] = e
		rep.Coverage["size_cases_accepted"] = d
	}
	return rep
}

func init() { registerBubble("C05", checkC05) }
