package mc

import (
	"context"
	"fmt"
	"net"
	"sort"
	"strings"
	"sync"
	"time"

	topoapi "github.com/onosproject/onos-api/go/onos/topo"
	sb "github.com/onosproject/onos-config/pkg/southbound/gnmi"
	"github.com/onosproject/onos-config/pkg/utils"
	"github.com/onosproject/onos-lib-go/pkg/errors"
	baseClient "github.com/openconfig/gnmi/client"
	gclient "github.com/openconfig/gnmi/client/gnmi"
	"github.com/openconfig/gnmi/proto/gnmi"
	"google.golang.org/grpc"
	"google.golang.org/grpc/codes"
	"google.golang.org/grpc/credentials/insecure"
	"google.golang.org/grpc/metadata"
	"google.golang.org/grpc/status"
	"google.golang.org/grpc/test/bufconn"
)

// simDevice is a gNMI target: a path->value map with element-aware subtree delete, master arbitration by
// election id, scripted answers and a request log. It is reached over gRPC (bufconn) through the repository's
// own southbound client wrapper, so device errors take the real conversion path.
type simDevice struct {
	id  string
	mu  sync.Mutex
	cfg map[string]string // textual path -> canonical value text
	// highest election id seen since the last restart
	maxElection uint64
	// scripted answers: the next len(script) Sets are answered with these codes (codes.OK = normal processing)
	script []codes.Code
	// refuse: a Set that carries one of these "path=value" updates, or the delete of one of these paths
	// ("delete <path>"), is always answered with the given code
	refuse map[string]codes.Code
	// request log of the current step
	log  []devReq
	fuse *fuse
	// history variable (only when trackHist is set; then part of the state): the "path=value" updates this device has
	// accepted under the highest election id ever used towards it. It records what the controllers sent in the
	// current term; a restart of the device does not forget it.
	trackHist bool
	histEl    uint64
	hist      map[string]bool

	lis *bufconn.Listener
	srv *grpc.Server
	gnmi.UnimplementedGNMIServer
}

type devReq struct {
	Conn     string   `json:"conn"`
	Election uint64   `json:"election"`
	Deletes  []string `json:"deletes,omitempty"`
	Updates  []string `json:"updates,omitempty"` // path=value
	Code     string   `json:"code"`
	// history before this request (devices with trackHist): the election id of the newest term and what was accepted in it
	// RawUpdates: the update paths as structured elements (c16Canon), independent of any textual path form
	RawUpdates []string `json:"rawUpdates,omitempty"`
	SeenEl     uint64   `json:"seenEl,omitempty"`
	Seen       []string `json:"seen,omitempty"`
}

func newSimDevice(id string, f *fuse) *simDevice {
	d := &simDevice{id: id, cfg: map[string]string{}, fuse: f}
	d.lis = bufconn.Listen(1 << 20)
	d.srv = grpc.NewServer()
	gnmi.RegisterGNMIServer(d.srv, d)
	go func() { _ = d.srv.Serve(d.lis) }()
	return d
}

func (d *simDevice) dial(connID string) (*grpc.ClientConn, error) {
	return grpc.DialContext(context.Background(), "dev-"+d.id,
		grpc.WithContextDialer(func(ctx context.Context, _ string) (net.Conn, error) { return d.lis.DialContext(ctx) }),
		grpc.WithTransportCredentials(insecure.NewCredentials()),
		grpc.WithUnaryInterceptor(func(ctx context.Context, method string, req, reply interface{}, cc *grpc.ClientConn, invoker grpc.UnaryInvoker, opts ...grpc.CallOption) error {
			// split steps park a device Set here, on the client side, before it is sent: if the connection goes
			// away while the call is parked the request never reaches the device
			if strings.HasSuffix(method, "/Set") {
				d.fuse.Gate("device")
			}
			return invoker(metadata.AppendToOutgoingContext(ctx, "x-conn-id", connID), method, req, reply, cc, opts...)
		}))
}

func devValueText(v *gnmi.TypedValue) string { return c17Norm(v) }

func (d *simDevice) Capabilities(ctx context.Context, r *gnmi.CapabilityRequest) (*gnmi.CapabilityResponse, error) {
	return &gnmi.CapabilityResponse{GNMIVersion: "0.7.0"}, nil
}

func (d *simDevice) Get(ctx context.Context, r *gnmi.GetRequest) (*gnmi.GetResponse, error) {
	return &gnmi.GetResponse{}, nil
}

// devCovers: deleting path t removes path p (element boundary; an element of t without keys matches any keys).
func devCovers(t, p string) bool { return c18Covers(c18Split(t), c18Split(p)) }

func (d *simDevice) Set(ctx context.Context, r *gnmi.SetRequest) (*gnmi.SetResponse, error) {
	d.mu.Lock()
	defer d.mu.Unlock()
	req := devReq{}
	if d.trackHist {
		req.SeenEl, req.Seen = d.histEl, d.histList()
	}
	if md, ok := metadata.FromIncomingContext(ctx); ok {
		if v := md.Get("x-conn-id"); len(v) > 0 {
			req.Conn = v[0]
		}
	}
	for _, e := range r.Extension {
		if ma := e.GetMasterArbitration(); ma != nil {
			req.Election = ma.GetElectionId().GetLow()
		}
	}
	prefix := ""
	if r.Prefix != nil && len(r.Prefix.Elem) > 0 {
		prefix = utils.StrPathElem(r.Prefix.Elem)
	}
	for _, p := range r.Delete {
		req.Deletes = append(req.Deletes, prefix+utils.StrPath(p))
	}
	for _, u := range append(append([]*gnmi.Update{}, r.Replace...), r.Update...) {
		req.Updates = append(req.Updates, prefix+utils.StrPath(u.Path)+"="+devValueText(u.Val))
		req.RawUpdates = append(req.RawUpdates, c16PathCanon(r.Prefix, u.Path))
	}
	finish := func(c codes.Code, msg string) (*gnmi.SetResponse, error) {
		req.Code = c.String()
		d.log = append(d.log, req)
		if c != codes.OK {
			return nil, status.Error(c, msg)
		}
		return &gnmi.SetResponse{Timestamp: 1}, nil
	}
	// the request reaching the device is an external effect of the step (even when the device refuses it)
	if !d.fuse.Effect("device " + d.id + " set") {
		return nil, status.Error(codes.Internal, "crashed")
	}
	for _, u := range req.Updates {
		if c, ok := d.refuse[u]; ok {
			return finish(c, fmt.Sprintf("device %s refuses %s", d.id, u))
		}
	}
	for _, t := range req.Deletes {
		if c, ok := d.refuse["delete "+t]; ok {
			return finish(c, fmt.Sprintf("device %s refuses the delete of %s", d.id, t))
		}
	}
	if len(d.script) > 0 {
		c := d.script[0]
		d.script = d.script[1:]
		if c != codes.OK {
			return finish(c, fmt.Sprintf("device %s scripted answer %s", d.id, c))
		}
	}
	if req.Election < d.maxElection {
		return finish(codes.PermissionDenied, fmt.Sprintf("election id %d is lower than %d", req.Election, d.maxElection))
	}
	d.maxElection = req.Election
	if d.trackHist {
		if req.Election > d.histEl {
			d.histEl, d.hist = req.Election, map[string]bool{}
		}
		if req.Election == d.histEl {
			if d.hist == nil {
				d.hist = map[string]bool{}
			}
			for _, u := range req.Updates {
				d.hist[u] = true
			}
		}
	}
	for _, t := range req.Deletes {
		for p := range d.cfg {
			if devCovers(t, p) {
				delete(d.cfg, p)
			}
		}
	}
	for _, u := range append(append([]*gnmi.Update{}, r.Replace...), r.Update...) {
		d.cfg[prefix+utils.StrPath(u.Path)] = devValueText(u.Val)
	}
	return finish(codes.OK, "")
}

// Restart wipes the device (configuration and election high-water mark).
func (d *simDevice) Restart() {
	d.mu.Lock()
	defer d.mu.Unlock()
	d.cfg = map[string]string{}
	d.maxElection = 0
}

func (d *simDevice) TakeLog() []devReq {
	d.mu.Lock()
	defer d.mu.Unlock()
	l := d.log
	d.log = nil
	return l
}

type simDevSnap struct {
	cfg         map[string]string
	maxElection uint64
	script      []codes.Code
	histEl      uint64
	hist        []string
}

// histList returns the history as a sorted list (lock held).
func (d *simDevice) histList() []string {
	l := make([]string, 0, len(d.hist))
	for u := range d.hist {
		l = append(l, u)
	}
	sort.Strings(l)
	return l
}

// History returns the newest term the device was written in and what it accepted in that term.
func (d *simDevice) History() (uint64, []string) {
	d.mu.Lock()
	defer d.mu.Unlock()
	return d.histEl, d.histList()
}

func (d *simDevice) Snapshot() *simDevSnap {
	d.mu.Lock()
	defer d.mu.Unlock()
	s := &simDevSnap{cfg: map[string]string{}, maxElection: d.maxElection, script: append([]codes.Code{}, d.script...), histEl: d.histEl, hist: d.histList()}
	for k, v := range d.cfg {
		s.cfg[k] = v
	}
	return s
}

func (d *simDevice) Restore(s *simDevSnap) {
	d.mu.Lock()
	defer d.mu.Unlock()
	d.cfg = map[string]string{}
	for k, v := range s.cfg {
		d.cfg[k] = v
	}
	d.maxElection = s.maxElection
	d.script = append([]codes.Code{}, s.script...)
	d.log = nil
	d.histEl, d.hist = s.histEl, map[string]bool{}
	for _, u := range s.hist {
		d.hist[u] = true
	}
}

func (d *simDevice) Canon() string {
	d.mu.Lock()
	defer d.mu.Unlock()
	keys := make([]string, 0, len(d.cfg))
	for k := range d.cfg {
		keys = append(keys, k)
	}
	sort.Strings(keys)
	var b strings.Builder
	fmt.Fprintf(&b, "dev %s el=%d script=%v {", d.id, d.maxElection, d.script)
	for _, k := range keys {
		fmt.Fprintf(&b, "%s=%s;", k, d.cfg[k])
	}
	b.WriteString("}")
	if d.trackHist {
		fmt.Fprintf(&b, " sent-in-term-%d=%v", d.histEl, d.histList())
	}
	return b.String()
}

func (d *simDevice) Content() map[string]string {
	d.mu.Lock()
	defer d.mu.Unlock()
	out := map[string]string{}
	for k, v := range d.cfg {
		out[k] = v
	}
	return out
}

// ---------------------------------------------------------------------------------------------------------

// simConnMgr implements gnmi.ConnManager over simDevices. Connections come and go by environment events.
type simConnMgr struct {
	mu       sync.Mutex
	devices  map[string]*simDevice
	managed  map[topoapi.ID]bool    // targets the target controller asked to connect
	reach    map[topoapi.ID]bool    // environment: device reachable
	conns    map[sb.ConnID]sb.Conn  // live connections
	byTarget map[topoapi.ID]sb.Conn // current connection of a target
	clients  map[topoapi.ID]sb.Client
	seq      map[topoapi.ID]int
	grpc     map[sb.ConnID]*grpc.ClientConn
	watchers map[*simConnWatcher]struct{}
	fuse     *fuse
}

type simConnWatcher struct{ ch chan sb.Conn }

func newSimConnMgr(devs map[string]*simDevice, f *fuse) *simConnMgr {
	return &simConnMgr{fuse: f, devices: devs, managed: map[topoapi.ID]bool{}, reach: map[topoapi.ID]bool{}, conns: map[sb.ConnID]sb.Conn{},
		byTarget: map[topoapi.ID]sb.Conn{}, clients: map[topoapi.ID]sb.Client{}, seq: map[topoapi.ID]int{}, grpc: map[sb.ConnID]*grpc.ClientConn{},
		watchers: map[*simConnWatcher]struct{}{}}
}

func (m *simConnMgr) notify(c sb.Conn) {
	for w := range m.watchers {
		select {
		case w.ch <- c:
		default:
			panic("simconn: watcher buffer overflow")
		}
	}
}

func (m *simConnMgr) makeConn(target topoapi.ID, n int) (sb.Conn, *grpc.ClientConn) {
	dev := m.devices[string(target)]
	id := sb.ConnID(fmt.Sprintf("uuid:%s-c%d", target, n))
	cc, err := dev.dial(string(id))
	if err != nil {
		panic(err)
	}
	gc, err := gclient.NewFromConn(context.Background(), cc, baseClient.Destination{Addrs: []string{"dev-" + dev.id}, Target: string(target), Timeout: 10 * time.Second})
	if err != nil {
		panic(err)
	}
	return sb.NewConnForVerif(target, id, gc), cc
}

// up establishes a new connection for the target (with the lock held).
func (m *simConnMgr) up(target topoapi.ID) {
	if _, ok := m.byTarget[target]; ok {
		return
	}
	m.seq[target]++
	c, cc := m.makeConn(target, m.seq[target])
	m.conns[c.ID()] = c
	m.byTarget[target] = c
	m.clients[target] = c
	m.grpc[c.ID()] = cc
	m.notify(c)
}

func (m *simConnMgr) down(target topoapi.ID) {
	c, ok := m.byTarget[target]
	if !ok {
		return
	}
	delete(m.conns, c.ID())
	delete(m.byTarget, target)
	if cc := m.grpc[c.ID()]; cc != nil {
		_ = cc.Close()
		delete(m.grpc, c.ID())
	}
	m.notify(c)
}

// SetReachable is the environment event ConnUp / ConnDown.
func (m *simConnMgr) SetReachable(target topoapi.ID, up bool) {
	m.mu.Lock()
	defer m.mu.Unlock()
	m.reach[target] = up
	if up && m.managed[target] {
		m.up(target)
	} else if !up {
		m.down(target)
	}
}

func (m *simConnMgr) Get(ctx context.Context, connID sb.ConnID) (sb.Conn, bool) {
	m.mu.Lock()
	defer m.mu.Unlock()
	c, ok := m.conns[connID]
	return c, ok
}

func (m *simConnMgr) GetByTarget(ctx context.Context, targetID topoapi.ID) (sb.Client, error) {
	m.mu.Lock()
	defer m.mu.Unlock()
	if c, ok := m.clients[targetID]; ok && m.managed[targetID] {
		return c, nil
	}
	return nil, errors.NewNotFound("gnmi client for target %s not found", targetID)
}

func (m *simConnMgr) Connect(ctx context.Context, target *topoapi.Object) error {
	m.mu.Lock()
	defer m.mu.Unlock()
	if m.managed[target.ID] {
		return errors.NewAlreadyExists("target '%s' already exists", target.ID)
	}
	if _, ok := m.devices[string(target.ID)]; !ok {
		return errors.NewInvalid("no such device %s", target.ID)
	}
	if !m.fuse.Effect("conn connect " + string(target.ID)) {
		return errors.NewInternal("crashed")
	}
	m.managed[target.ID] = true
	if m.reach[target.ID] {
		m.up(target.ID)
	}
	return nil
}

func (m *simConnMgr) Disconnect(ctx context.Context, targetID topoapi.ID) error {
	m.mu.Lock()
	defer m.mu.Unlock()
	if !m.managed[targetID] {
		return errors.NewNotFound("target '%s' not found", targetID)
	}
	if !m.fuse.Effect("conn disconnect " + string(targetID)) {
		return errors.NewInternal("crashed")
	}
	delete(m.managed, targetID)
	m.down(targetID)
	return nil
}

func (m *simConnMgr) Watch(ctx context.Context, ch chan<- sb.Conn) error {
	m.mu.Lock()
	w := &simConnWatcher{ch: make(chan sb.Conn, 1<<10)}
	ids := make([]string, 0, len(m.conns))
	for id := range m.conns {
		ids = append(ids, string(id))
	}
	sort.Strings(ids)
	for _, id := range ids {
		w.ch <- m.conns[sb.ConnID(id)]
	}
	m.watchers[w] = struct{}{}
	m.mu.Unlock()
	go func() {
		defer func() {
			m.mu.Lock()
			delete(m.watchers, w)
			m.mu.Unlock()
		}()
		for {
			select {
			case c := <-w.ch:
				select {
				case ch <- c:
				case <-ctx.Done():
					return
				}
			case <-ctx.Done():
				return
			}
		}
	}()
	return nil
}

type simConnSnap struct {
	managed map[topoapi.ID]bool
	reach   map[topoapi.ID]bool
	seq     map[topoapi.ID]int
	live    map[topoapi.ID]int // target -> seq of its live connection
}

func (m *simConnMgr) Snapshot() *simConnSnap {
	m.mu.Lock()
	defer m.mu.Unlock()
	s := &simConnSnap{managed: map[topoapi.ID]bool{}, reach: map[topoapi.ID]bool{}, seq: map[topoapi.ID]int{}, live: map[topoapi.ID]int{}}
	for k, v := range m.managed {
		s.managed[k] = v
	}
	for k, v := range m.reach {
		s.reach[k] = v
	}
	for k, v := range m.seq {
		s.seq[k] = v
	}
	for t := range m.byTarget {
		s.live[t] = m.seq[t]
	}
	return s
}

// Restore re-creates the connection set of the snapshot without notifying watchers.
func (m *simConnMgr) Restore(s *simConnSnap) {
	m.mu.Lock()
	defer m.mu.Unlock()
	m.managed, m.reach, m.seq = map[topoapi.ID]bool{}, map[topoapi.ID]bool{}, map[topoapi.ID]int{}
	for k, v := range s.managed {
		m.managed[k] = v
	}
	for k, v := range s.reach {
		m.reach[k] = v
	}
	for k, v := range s.seq {
		m.seq[k] = v
	}
	// keep connections that are still the right ones, drop the others, create the missing ones
	for t, c := range m.byTarget {
		want, ok := s.live[t]
		if !ok || c.ID() != sb.ConnID(fmt.Sprintf("uuid:%s-c%d", t, want)) {
			delete(m.conns, c.ID())
			delete(m.byTarget, t)
			if cc := m.grpc[c.ID()]; cc != nil {
				_ = cc.Close()
				delete(m.grpc, c.ID())
			}
		}
	}
	for t, n := range s.live {
		if _, ok := m.byTarget[t]; !ok {
			c, cc := m.makeConn(t, n)
			m.conns[c.ID()] = c
			m.byTarget[t] = c
			m.clients[t] = c
			m.grpc[c.ID()] = cc
		}
	}
}

func (m *simConnMgr) Canon() string {
	m.mu.Lock()
	defer m.mu.Unlock()
	var parts []string
	for t := range m.managed {
		parts = append(parts, "managed:"+string(t))
	}
	for t, r := range m.reach {
		if r {
			parts = append(parts, "reach:"+string(t))
		}
	}
	for id := range m.conns {
		parts = append(parts, "conn:"+string(id))
	}
	sort.Strings(parts)
	return strings.Join(parts, ",")
}

// ProcessDied drops every connection and registration without notifying anybody (the process is gone).
func (m *simConnMgr) ProcessDied() {
	m.mu.Lock()
	defer m.mu.Unlock()
	for id, cc := range m.grpc {
		_ = cc.Close()
		delete(m.grpc, id)
	}
	m.conns = map[sb.ConnID]sb.Conn{}
	m.byTarget = map[topoapi.ID]sb.Conn{}
	m.clients = map[topoapi.ID]sb.Client{}
	m.managed = map[topoapi.ID]bool{}
}

// LiveConn returns the id of the live connection of a target ("" if none).
func (m *simConnMgr) LiveConn(target topoapi.ID) sb.ConnID {
	m.mu.Lock()
	defer m.mu.Unlock()
	if c, ok := m.byTarget[target]; ok {
		return c.ID()
	}
	return ""
}
