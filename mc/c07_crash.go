package mc

import (
	"fmt"
	"os"
	"sort"
	"strings"

	configapi "github.com/onosproject/onos-api/go/onos/config/v2"
	"google.golang.org/grpc/codes"
)

// C07 – a crash between any two store writes loses nothing and repeats nothing.
//
// Engine: E1a with crash@k for every effectful step and every k (the process dies before its (k+1)-th external effect,
// restarts, all records are replayed). Differential oracle on the terminal states (nothing can act any more, all
// requests submitted): the outcome reached with a crash must be one of the outcomes reachable without a crash.
// Plus the merge monitor of C02 (no change merged twice or out of order) and "no later transaction blocked".

type c07Outcome struct {
	Txs    string
	Stored string
	Device string
}

func (o c07Outcome) String() string {
	return "tx[" + o.Txs + "] stored[" + o.Stored + "] device[" + o.Device + "]"
}

func c07Project(w *World) c07Outcome {
	v := w.View()
	var o c07Outcome
	for _, t := range v.Txs {
		o.Txs += fmt.Sprintf("%d:%s/%s ", t.Index, t.Status.State, failText(t.Status.Failure))
	}
	cids := make([]string, 0, len(v.Cfgs))
	for id := range v.Cfgs {
		cids = append(cids, string(id))
	}
	sort.Strings(cids)
	for _, id := range cids {
		c := v.Cfgs[configapi.ConfigurationID(id)]
		o.Stored += fmt.Sprintf("%s{%s idx=%d committed=%d applied=%d} ", c.TargetID, c05LiveText(c), c.Index, c.Status.Committed.Index, c.Status.Applied.Index)
	}
	ts := make([]string, 0, len(w.devices))
	for t := range w.devices {
		ts = append(ts, t)
	}
	sort.Strings(ts)
	for _, t := range ts {
		c := w.devices[t].Content()
		keys := make([]string, 0, len(c))
		for k, val := range c {
			keys = append(keys, k+"="+val)
		}
		sort.Strings(keys)
		o.Device += t + "{" + strings.Join(keys, ";") + "} "
	}
	return o
}

func c07Scenarios(thorough bool) []*Scenario {
	a := func(leaf, v string) SetReqOrCall { return setReq("T1."+leaf+"="+v, upd("T1", "/cont/"+leaf, v)) }
	crash := 1
	scs := []*Scenario{
		{Name: "S2 Set, then a Set overwriting it and adding a leaf, connected", Cfg: WorldConfig{Targets: []string{"T1"}}, Init: connectAll("T1"),
			Requests: []SetReqOrCall{a("leafA", "1"), setReq("T1.leafA=2+leafA2=2", upd("T1", "/cont/leafA", "2"), upd("T1", "/cont/leafA2", "2"))}, CrashBudget: crash},
		{Name: "S1 one Set on T1+T2, devices offline", Cfg: WorldConfig{Targets: []string{"T1", "T2"}},
			Requests: []SetReqOrCall{setReq("T1.leafA=x+T2.leafA=y", upd("T1", "/cont/leafA", "x"), upd("T2", "/cont/leafA", "y"))}, CrashBudget: crash},
		{Name: "S4 Set then rollback, connected", Cfg: WorldConfig{Targets: []string{"T1"}}, Init: connectAll("T1"),
			Requests: []SetReqOrCall{a("leafA", "1"), rollbackReq("rollback(1)", 1)}, CrashBudget: crash},
		{Name: "S4m Set on T1+T2 then its rollback, devices offline", Cfg: WorldConfig{Targets: []string{"T1", "T2"}},
			Requests: []SetReqOrCall{setReq("T1.leafA=x+T2.leafA=y", upd("T1", "/cont/leafA", "x"), upd("T2", "/cont/leafA", "y")), rollbackReq("rollback(1)", 1)}, CrashBudget: crash},
		{Name: "S6 two Sets, the device always refuses the first", Cfg: WorldConfig{Targets: []string{"T1"}},
			Init: func(w *World) {
				connectAll("T1")(w)
				w.devices["T1"].refuse = map[string]codes.Code{`/cont/leafA=string:"1"`: codes.InvalidArgument}
			},
			Requests: []SetReqOrCall{a("leafA", "1"), a("leafA2", "2")}, CrashBudget: crash},
		{Name: "S7 Set, rejected Set, Set, device offline", Cfg: WorldConfig{Targets: []string{"T1"}},
			Init: func(w *World) {
				w.plugins["T1"].SetVerdict(rejectIf(func(f map[string]string) bool { return f["/cont/leafA"] == "bad" }, "leafA must not be bad"))
			},
			Requests: []SetReqOrCall{a("leafA", "1"), a("leafA", "bad"), a("leafA2", "3")}, CrashBudget: crash},
	}
	if thorough {
		scs = append(scs, &Scenario{Name: "S1c one Set on T1+T2, connected", Cfg: WorldConfig{Targets: []string{"T1", "T2"}}, Init: connectAll("T1", "T2"),
			Requests: []SetReqOrCall{setReq("T1.leafA=x+T2.leafA=y", upd("T1", "/cont/leafA", "x"), upd("T2", "/cont/leafA", "y"))}, CrashBudget: 1, MaxStates: 1500000})
		for _, s := range scs[:3] {
			c := *s
			c.Name += ", two crashes"
			c.CrashBudget = 2
			scs = append(scs, &c)
		}
	}
	return scs
}

func checkC07(rc *RunCtx) *Report {
	rep := newReport("model_checking")
	scs := c07Scenarios(rc.Thorough())
	if rc.Replay != "" {
		replayE1(rc, rep, scs)
		return rep
	}
	// work-set scenarios: after a restart only the tokens the real watchers replay exist
	a := func(leaf, v string) SetReqOrCall { return setReq("T1."+leaf+"="+v, upd("T1", "/cont/"+leaf, v)) }
	wsScs := []*Scenario{
		{Name: "W1 one Set on T1, offline, one crash (work-set model: only replayed tokens survive)", Cfg: WorldConfig{Targets: []string{"T1"}},
			Requests: []SetReqOrCall{a("leafA", "1")}, CrashBudget: 1},
	}
	if rc.Thorough() {
		wsScs = append(wsScs, &Scenario{Name: "W2 one Set on T1, connected, one crash (work-set model)", Cfg: WorldConfig{Targets: []string{"T1"}}, Init: connectAll("T1"),
			Requests: []SetReqOrCall{a("leafA", "1")}, CrashBudget: 1})
	}
	nums, extra := runSharded(rc, rep, len(scs)+len(wsScs), func(sh Shard, rep *Report) *ShardResult {
		out := newShardResult()
		for j, sc := range wsScs {
			if !sh.Mine(len(scs)+j) || (os.Getenv("VERIF_ONLY") != "" && !strings.Contains(sc.Name, os.Getenv("VERIF_ONLY"))) {
				continue
			}
			sc := sc
			sc.Mode = QWorkSet
			sc.MaxStates = 500000
			x := &Explorer{RC: rc, Rep: rep, Sc: sc}
			cands := newCandidates(true)
			probes := 0
			x.Hooks.OnState = func(x *Explorer, s *E1State) { c09IdleOracle(x, s, sc, cands, &probes) }
			x.Run()
			// classes of this part are prefixed so that they are told apart from C09's
			for i := range cands.pending {
				cands.pending[i].class = "after-restart/" + cands.pending[i].class
			}
			cands.resolve(x, rep, sc)
			if n, diff := x.ValidateOnRealAtomix(envInt("VERIF_VALIDATE", 3)); diff != "" {
				rep.HarnessErr = "trace validation on the real atomix runtime: " + diff
			} else {
				out.Numbers["traces_validated"] += int64(n)
			}
			out.Numbers["states"] += int64(x.States)
			out.Numbers["transitions"] += int64(x.Transitions)
			out.Numbers["split_steps"] += int64(x.Splits)
			out.Numbers["map_order_deviations"] += int64(x.MapDeviations)
			out.Numbers["idle_states"] += int64(x.IdleStates)
			out.Numbers["candidates"] += int64(cands.total)
			out.Numbers["unconfirmed_candidates"] += int64(cands.unconfirmed)
			if x.Capped {
				rep.Exhaustive = false
			}
			if len(cands.notes) > 0 {
				out.Extra["unconfirmed: "+sc.Name] = cands.notes
			}
			out.Extra[sc.Name] = map[string]interface{}{"states": x.States, "transitions": x.Transitions, "idle_states": x.IdleStates, "capped": x.Capped}
		}
		for i, sc := range scs {
			if !sh.Mine(i) || (os.Getenv("VERIF_ONLY") != "" && !strings.Contains(sc.Name, os.Getenv("VERIF_ONLY"))) {
				continue
			}
			sc := sc
			sc.Mode = QAny
			sc.MapOrderDeviations = true
			if sc.MaxStates == 0 {
				sc.MaxStates = 600000
			}
			x := &Explorer{RC: rc, Rep: rep, Sc: sc}
			cands := newCandidates(false)
			views := map[uint64]*StoreView{}
			viewOf := func(s *E1State) *StoreView {
				if v, ok := views[s.key]; ok {
					return v
				}
				x.W.Restore(s.snap)
				v := x.W.fastView()
				views[s.key] = v
				return v
			}
			type term struct {
				s *E1State
				o c07Outcome
			}
			var terms []term
			crashTrans := 0
			x.Hooks.Aux = func(x *Explorer, from *E1State, tr Trans, res *StepResult) string { return c02Aux(from.aux, tr, res) }
			x.Hooks.OnTransition = func(x *Explorer, from *E1State, tr Trans, res *StepResult, to *E1State) {
				if tr.Kind == "crash" || tr.Kind == "restart" {
					crashTrans++
				}
				if cl, text := c02Monitor(viewOf(from), viewOf(to), from.aux, tr, res); cl == "committed-index-decreases" || cl == "merge-out-of-order" {
					auxBefore := from.aux
					cands.considerStep(from, tr, "merge/"+cl, fmt.Sprintf("scenario %q: %s", sc.Name, text), func(w *World, before *StoreView, r *StepResult) (bool, string) {
						c2, t2 := c02Monitor(before, w.View(), auxBefore, tr, r)
						return c2 == cl, t2
					})
				}
			}
			x.Hooks.OnExpanded = func(x *Explorer, s *E1State, outN int) {
				if outN != 0 || s.env.NextReq < len(sc.Requests) {
					return
				}
				x.W.Restore(s.snap)
				terms = append(terms, term{s, c07Project(x.W)})
			}
			x.Run()
			// the differential oracle
			noCrash := map[string]bool{}
			for _, t := range terms {
				if t.s.env.Crashes == 0 {
					noCrash[t.o.String()] = true
				}
			}
			var ref []string
			for o := range noCrash {
				ref = append(ref, o)
			}
			sort.Strings(ref)
			crashOutcomes := hashSet{}
			for _, t := range terms {
				t := t
				crashOutcomes.Add(sc.Name + t.o.String())
				if t.s.env.Crashes == 0 || noCrash[t.o.String()] || x.Capped {
					continue
				}
				// which part differs from every crash-free outcome?
				part := "transactions"
				for _, r := range terms {
					if r.s.env.Crashes == 0 && r.o.Txs == t.o.Txs {
						part = "stored-configuration"
						if r.o.Stored == t.o.Stored {
							part = "device"
						}
					}
				}
				short := strings.Fields(sc.Name)[0]
				cands.consider(x, rep, sc, t.s, "crash-changes-outcome/"+part+"/"+short,
					fmt.Sprintf("scenario %q: with a crash the system ends in %s; without a crash it ends in one of %v", sc.Name, t.o, ref),
					func(w *World) (bool, string) {
						o := c07Project(w)
						return !noCrash[o.String()], o.String()
					})
			}
			cands.resolve(x, rep, sc)
			if n, diff := x.ValidateOnRealAtomix(envInt("VERIF_VALIDATE", 3)); diff != "" {
				rep.HarnessErr = "trace validation on the real atomix runtime: " + diff
			} else {
				out.Numbers["traces_validated"] += int64(n)
			}
			out.Numbers["states"] += int64(x.States)
			out.Numbers["transitions"] += int64(x.Transitions)
			out.Numbers["split_steps"] += int64(x.Splits)
			out.Numbers["map_order_deviations"] += int64(x.MapDeviations)
			out.Numbers["crash_transitions"] += int64(crashTrans)
			out.Numbers["terminal_states"] += int64(len(terms))
			out.Numbers["crash_free_outcomes"] += int64(len(noCrash))
			out.Numbers["candidates"] += int64(cands.total)
			out.Numbers["unconfirmed_candidates"] += int64(cands.unconfirmed)
			out.Distinct["outcomes"] = append(out.Distinct["outcomes"], crashOutcomes.List()...)
			if x.Capped {
				rep.Exhaustive = false
			}
			if len(cands.notes) > 0 {
				out.Extra["unconfirmed: "+sc.Name] = cands.notes
			}
			out.Extra[sc.Name] = map[string]interface{}{"states": x.States, "transitions": x.Transitions, "crash_transitions": crashTrans, "terminal_states": len(terms), "crash_free_outcomes": ref, "capped": x.Capped}
		}
		return out
	})
	e1Coverage(rep, nums, extra)
	return rep
}

func init() { registerBubble("C07", checkC07) }
