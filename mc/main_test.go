// Package mc is the model-checking harness for onos-config. It is compiled as a
// `go test -c` binary (testing/synctest needs a *testing.T) and driven by /verif/check.
package mc

import (
	"flag"
	"fmt"
	"os"
	"sort"
	"strconv"
	"testing"
	"testing/synctest"
)

var (
	flagCheck  = flag.String("check", "", "property id to check (C01..C20) or an auxiliary check name")
	flagTier   = flag.String("tier", "quick", "quick|thorough")
	flagReplay = flag.String("replay", "", "replay file: re-execute one recorded case without search")
	flagWorker = flag.String("worker", "", "internal: worker shard spec")
	flagOut    = flag.String("out", "", "internal: worker result file")
	flagRoot   = flag.String("root", "/verif", "verif root directory")
	flagBudget = flag.Duration("budget", 0, "internal deadline for the exploration (0 = tier default)")
)

func TestMain(m *testing.M) {
	flag.Parse()
	os.Exit(m.Run())
}

// TestCheck is the single entry point used by /verif/check.
func TestCheck(t *testing.T) {
	if *flagCheck == "" {
		t.Skip("no -check given")
	}
	f, ok := registry[*flagCheck]
	if !ok {
		ids := make([]string, 0, len(registry))
		for id := range registry {
			ids = append(ids, id)
		}
		sort.Strings(ids)
		fmt.Printf("unknown check %q; known: %v\n", *flagCheck, ids)
		os.Exit(2)
	}
	seed := int64(0)
	if s := os.Getenv("VERIF_SEED"); s != "" {
		if v, err := strconv.ParseInt(s, 10, 64); err == nil {
			seed = v
		}
	}
	tier := *flagTier
	if v := os.Getenv("VERIF_TIER"); v != "" && (v == "quick" || v == "thorough") && !flagWasSet("tier") {
		tier = v
	}
	rc := &RunCtx{T: t, ID: *flagCheck, Tier: tier, Seed: seed, Root: *flagRoot, Replay: *flagReplay,
		Worker: *flagWorker, Out: *flagOut, Start: realNow()}
	if *flagBudget > 0 {
		rc.Deadline = rc.Start.Add(*flagBudget)
	}
	body := func() {
		rep := f(rc)
		if rc.Worker != "" {
			// workers write their partial result themselves and never decide the exit status
			os.Exit(0)
		}
		os.Exit(finish(rc, rep))
	}
	if needsBubble[*flagCheck] {
		// the process exits inside the bubble: goroutines of the world are still parked and a bubble must not
		// be left while they are
		synctest.Test(t, func(t *testing.T) { rc.T = t; body() })
		return
	}
	body()
}

func flagWasSet(name string) bool {
	set := false
	flag.Visit(func(f *flag.Flag) {
		if f.Name == name {
			set = true
		}
	})
	return set
}
