package mc

import (
	"context"
	"fmt"
	"os"
	"sort"
	"strings"

	"github.com/openconfig/gnmi/proto/gnmi"
	"google.golang.org/grpc/metadata"
)

// C14 – only members of an admin group may change configuration (E3h: bounded-exhaustive identity metadata).

// (group names are free text in an identity token: the last two embed an administrator group's name as a whole word,
// separated by a space and by a comma; ";" is what the interceptor joins the list with and stays out of the alphabet)
var c14Groups = []string{"", "Admin", "AetherROCAdmin", "AetherROCAdminX", "aetherrocadmin", "T1", "Other", "EnterpriseAdmin", "Friends of AetherROCAdmin", "readers,EnterpriseAdmin"}
var c14AdminSettings = []string{"", "AetherROCAdmin", "AetherROCAdmin,EnterpriseAdmin"}

type c14Case struct {
	Admin    string   `json:"admingroups"`
	Identity bool     `json:"identity"` // the request carries identity metadata (name, groups)
	NoName   bool     `json:"no_name"`  // identity without a name claim (e.g. a service account: preferred_username only)
	RocEnv   string   `json:"roc_env"`  // AetherROCAdmin environment variable: "<unset>", "" or a name
	Groups   []string `json:"groups"`
	OIDC     bool     `json:"oidc"`
}

func (c c14Case) ctx() context.Context {
	if !c.Identity {
		return context.Background()
	}
	if c.NoName {
		return metadata.NewIncomingContext(context.Background(), metadata.Pairs("preferred_username", "svc", "groups", strings.Join(c.Groups, ";")))
	}
	return metadata.NewIncomingContext(context.Background(), metadata.Pairs("name", "alice", "preferred_username", "alice", "email", "alice@example.org", "groups", strings.Join(c.Groups, ";")))
}

func (c c14Case) expectPermitted() bool {
	if !c.Identity {
		return true
	}
	for _, a := range strings.Split(c.Admin, ",") {
		for _, g := range c.Groups {
			if a != "" && g == a {
				return true
			}
		}
	}
	return false
}

func c14GroupLists(maxLen int) [][]string {
	out := [][]string{{}}
	var rec func(cur []string)
	rec = func(cur []string) {
		if len(cur) == maxLen {
			return
		}
		for _, g := range c14Groups {
			n := append(append([]string{}, cur...), g)
			out = append(out, n)
			rec(n)
		}
	}
	rec(nil)
	return out
}

func c14Class(c c14Case, permitted bool) string {
	if permitted {
		// why was it let in?
		hasEmpty, sub, super := len(c.Groups) == 0, false, false
		for _, g := range c.Groups {
			if g == "" {
				hasEmpty = true
			} else if strings.Contains(c.Admin, g) {
				sub = true
			} else {
				for _, a := range strings.Split(c.Admin, ",") {
					if a != "" && strings.Contains(g, a) {
						super = true
					}
				}
			}
		}
		switch {
		case super && !sub:
			return "permitted/group-merely-contains-an-admin-group-name"
		case sub:
			return "permitted/group-is-a-substring-of-an-admin-group"
		case hasEmpty:
			return "permitted/no-or-empty-group"
		}
		return "permitted/other"
	}
	return "refused/member-of-an-admin-group"
}

func checkC14(rc *RunCtx) *Report {
	rep := newReport("exploration")
	hw := NewHistWorld(WorldConfig{Targets: []string{"T1", "T2"}}, false)
	w := hw.W
	base := w.Snapshot()
	maxLen := 2
	if rc.Thorough() {
		maxLen = 3
	}
	var cases []c14Case
	if rc.Replay != "" {
		var c c14Case
		if err := loadReplay(rc.Replay, "case", &c); err != nil {
			rep.HarnessErr = err.Error()
			return rep
		}
		cases = []c14Case{c}
	} else {
		for _, admin := range c14AdminSettings {
			cases = append(cases, c14Case{Admin: admin})
			for _, gl := range c14GroupLists(maxLen) {
				cases = append(cases, c14Case{Admin: admin, Identity: true, Groups: gl})
				if len(gl) <= 1 {
					cases = append(cases, c14Case{Admin: admin, Identity: true, NoName: true, Groups: gl})
				}
			}
		}
	}
	evals, permittedN, refusedN := 0, 0, 0
	distinct := map[string]bool{}
	req := SetReq{Name: "leafA=x", Ops: []ReqOp{upd("T1", "/cont/leafA", "x")}}
	for _, c := range cases {
		os.Setenv("ADMINGROUPS", c.Admin)
		w.Restore(base)
		before := len(w.View().Txs)
		res := hw.ExecSet(c.ctx(), req.build(), nil)
		after := len(w.View().Txs)
		evals++
		replay := map[string]interface{}{"kind": "c14", "case": c}
		permitted := res.Err == nil && res.Done
		if permitted {
			permittedN++
		} else {
			refusedN++
		}
		distinct[fmt.Sprintf("%v|%v|%v", c.Admin, c.Identity, permitted)] = true
		if permitted != c.expectPermitted() {
			rep.Violate("set/"+c14Class(c, permitted), fmt.Sprintf("ADMINGROUPS=%q identity=%v groups=%q: Set permitted=%v (err %v), expected %v", c.Admin, c.Identity, c.Groups, permitted, res.Err, c.expectPermitted()), replay)
		}
		if !permitted && after != before {
			rep.Violate("set/refused-but-logged", fmt.Sprintf("ADMINGROUPS=%q groups=%q: Set refused (%v) but the transaction log grew from %d to %d", c.Admin, c.Groups, res.Err, before, after), replay)
		}
		if evals%97 == 3 {
			rep.Sample(4, c)
		}
	}
	os.Setenv("ADMINGROUPS", "")
	// target listing under authorization
	listEvals := 0
	for _, oidc := range []bool{false, true} {
		if oidc {
			os.Setenv("OIDC_SERVER_URL", "http://oidc.example")
		} else {
			os.Unsetenv("OIDC_SERVER_URL")
		}
		for _, rocEnv := range []string{"<unset>", "", "CustomAdmin"} {
			if rocEnv == "<unset>" {
				os.Unsetenv("AetherROCAdmin")
			} else {
				os.Setenv("AetherROCAdmin", rocEnv)
			}
			rocName := "AetherROCAdmin"
			if rocEnv != "<unset>" && rocEnv != "" {
				rocName = rocEnv
			}
			lists := c14GroupLists(maxLen)
			lists = append(lists, []string{"CustomAdmin"}, []string{"CustomAdmin", "Other"})
			for _, gl := range lists {
				for _, enc := range []gnmi.Encoding{gnmi.Encoding_PROTO, gnmi.Encoding_JSON} {
					c := c14Case{Identity: true, Groups: gl, OIDC: oidc, RocEnv: rocEnv}
					resp, err := w.gnmi.Get(c.ctx(), &gnmi.GetRequest{Encoding: enc, Path: []*gnmi.Path{{Target: "*"}}})
					listEvals++
					replay := map[string]interface{}{"kind": "c14-list", "case": c}
					if err != nil {
						rep.Violate("list/error", fmt.Sprintf("listing all targets with groups %q (oidc %v) fails: %v", gl, oidc, err), replay)
						continue
					}
					var got []string
					for _, n := range resp.Notification {
						for _, u := range n.Update {
							if ll := u.Val.GetLeaflistVal(); ll != nil {
								for _, e := range ll.Element {
									got = append(got, e.GetStringVal())
								}
							} else if j := u.Val.GetJsonVal(); j != nil {
								s := string(j)
								for _, t := range []string{"T1", "T2"} {
									if strings.Contains(s, `"`+t+`"`) {
										got = append(got, t)
									}
								}
							}
						}
					}
					sort.Strings(got)
					want := []string{"T1", "T2"}
					if oidc {
						want = nil
						roc := false
						for _, g := range gl {
							if g == rocName {
								roc = true
							}
						}
						for _, t := range []string{"T1", "T2"} {
							named := roc
							for _, g := range gl {
								if g == t {
									named = true
								}
							}
							if named {
								want = append(want, t)
							}
						}
					}
					distinct[fmt.Sprintf("list|%v|%v", oidc, got)] = true
					if strings.Join(got, ",") != strings.Join(want, ",") {
						rep.Violate("list/wrong-targets", fmt.Sprintf("listing all targets with groups %q (oidc %v, AetherROCAdmin=%q, %s) shows %v, expected %v", gl, oidc, rocEnv, enc, got, want), replay)
					}
				}
			}
		}
	}
	os.Unsetenv("OIDC_SERVER_URL")
	os.Unsetenv("AetherROCAdmin")
	rep.Coverage["evaluations"] = evals + listEvals
	rep.Coverage["distinct_nontrivial"] = len(distinct)
	rep.Coverage["sets_permitted"] = permittedN
	rep.Coverage["sets_refused"] = refusedN
	rep.Coverage["rule"] = fmt.Sprintf("every group list of length 0..%d over %q plus absent identity metadata x ADMINGROUPS in %q through the real Set handler run to idle (permitted iff identity metadata is absent or some caller group equals a configured admin group; refusal leaves the log unchanged), and every such list x OIDC on/off x {PROTO,JSON} for the target listing; non-trivial = distinct (setting, identity, outcome) and listing results", maxLen, c14Groups, c14AdminSettings)
	return rep
}

func init() { registerBubble("C14", checkC14) }
