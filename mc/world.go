package mc

import (
	"context"
	"fmt"
	"os"
	"sort"
	"strings"
	"sync"
	"syscall"
	"testing/synctest"
	"time"

	"github.com/atomix/go-sdk/pkg/primitive"
	configapi "github.com/onosproject/onos-api/go/onos/config/v2"
	configv3 "github.com/onosproject/onos-api/go/onos/config/v3"
	topoapi "github.com/onosproject/onos-api/go/onos/topo"
	connctl "github.com/onosproject/onos-config/pkg/controller/connection"
	targetctl "github.com/onosproject/onos-config/pkg/controller/target"
	controllerutils "github.com/onosproject/onos-config/pkg/controller/utils"
	cfgctl "github.com/onosproject/onos-config/pkg/controller/v2/configuration"
	mastctl "github.com/onosproject/onos-config/pkg/controller/v2/mastership"
	propctl "github.com/onosproject/onos-config/pkg/controller/v2/proposal"
	txctl "github.com/onosproject/onos-config/pkg/controller/v2/transaction"
	cfgctl3 "github.com/onosproject/onos-config/pkg/controller/v3/configuration"
	mastctl3 "github.com/onosproject/onos-config/pkg/controller/v3/mastership"
	txctl3 "github.com/onosproject/onos-config/pkg/controller/v3/transaction"
	nbadmin "github.com/onosproject/onos-config/pkg/northbound/admin"
	nbgnmi "github.com/onosproject/onos-config/pkg/northbound/gnmi/v2"
	"github.com/onosproject/onos-config/pkg/pluginregistry"
	sb "github.com/onosproject/onos-config/pkg/southbound/gnmi"
	cfgstore "github.com/onosproject/onos-config/pkg/store/v2/configuration"
	propstore "github.com/onosproject/onos-config/pkg/store/v2/proposal"
	txstore "github.com/onosproject/onos-config/pkg/store/v2/transaction"
	cfgstore3 "github.com/onosproject/onos-config/pkg/store/v3/configuration"
	txstore3 "github.com/onosproject/onos-config/pkg/store/v3/transaction"
	"github.com/onosproject/onos-lib-go/pkg/controller"
	"github.com/onosproject/onos-lib-go/pkg/logging"
)

// realNow is wall-clock time that the synctest bubble's fake clock cannot touch.
func realNow() time.Time {
	var tv syscall.Timeval
	_ = syscall.Gettimeofday(&tv)
	return time.Unix(tv.Sec, int64(tv.Usec)*1000)
}

// Controller names
const (
	cTx     = "tx"
	cProp   = "prop"
	cCfg    = "cfg"
	cMast   = "mast"
	cConn   = "conn"
	cTarget = "target"
)

var allControllers = []string{cTx, cProp, cCfg, cMast, cConn, cTarget}

// Token is one pending unit of controller work.
type Token struct {
	Ctrl string `json:"c"`
	ID   string `json:"id"`
	Src  string `json:"src,omitempty"` // which watcher / "requeue" / "retry" produced it
}

func (t Token) Key() string { return t.Ctrl + ":" + t.ID }

// WorldConfig selects what a world contains.
type WorldConfig struct {
	Targets      []string // target ids; target i has type mini-<letter> so that each has its own plugin verdict
	SetSizeLimit int
	Backend      primitive.Client // nil: simatomix
	NoPlugin     map[string]bool  // targets whose model type has no plugin registered
	Persistent   map[string]bool
	// TrackDeviceHistory makes every device remember what it accepted in the newest term (a history variable that is
	// part of the state; used by the C10 monitors)
	TrackDeviceHistory bool
	V3                 bool // the next-generation stack: v3 stores and the v3 transaction / configuration / mastership controllers
}

type watcherHandle struct {
	ctrl, name string
	w          controller.Watcher
}

// World is one in-process instance of onos-config's real code closed by simulated neighbours.
type World struct {
	cfg     WorldConfig
	fuse    *fuse
	atomix  *simAtomix
	backend primitive.Client
	topo    *simTopo
	devices map[string]*simDevice
	conns   *simConnMgr
	plugins map[string]*simPlugin // by target id
	reg     pluginregistry.PluginRegistry

	txs   txstore.Store
	props propstore.Store
	cfgs  cfgstore.Store

	txs3  txstore3.Store // V3 worlds
	cfgs3 cfgstore3.Store

	recs     map[string]controller.Reconciler
	watchers []*watcherHandle

	gnmi  *nbgnmi.Server
	admin *nbadmin.Server

	calls []*Call // northbound calls in flight

	stepWrap func(f func()) // when set, Step runs the reconcile call inside it (C08: lets the controllers pass the gates)

	mu      sync.Mutex
	arrived []Token // tokens delivered by watchers since the last TakeTokens, in arrival order
}

func targetType(i int) string { return fmt.Sprintf("mini-%c", 'a'+i) }

const targetVersion = "1.0.0"

func init() {
	_ = os.Setenv("POD_ID", "onos-config-0")
	logging.SetLevel(logging.FatalLevel)
}

// NewWorld builds a world. Must be called inside a synctest bubble.
func NewWorld(cfg WorldConfig) *World {
	w := &World{cfg: cfg, fuse: newFuse(), devices: map[string]*simDevice{}, plugins: map[string]*simPlugin{}, recs: map[string]controller.Reconciler{}}
	if cfg.Backend == nil {
		w.atomix = newSimAtomix(w.fuse)
		w.backend = w.atomix
	} else {
		w.backend = cfg.Backend
	}
	w.topo = newSimTopo(w.fuse)
	var plugins []*simPlugin
	for i, t := range cfg.Targets {
		w.devices[t] = newSimDevice(t, w.fuse)
		w.devices[t].trackHist = cfg.TrackDeviceHistory
		if !cfg.NoPlugin[t] {
			p := newSimPlugin(targetType(i), targetVersion)
			w.plugins[t] = p
			plugins = append(plugins, p)
		}
	}
	w.conns = newSimConnMgr(w.devices, w.fuse)
	w.reg = newRegistry(plugins...)

	var err error
	if cfg.V3 {
		if w.txs3, err = txstore3.NewAtomixStore(w.backend); err != nil {
			panic(err)
		}
		if w.cfgs3, err = cfgstore3.NewAtomixStore(w.backend); err != nil {
			panic(err)
		}
		w.recs[cTx] = txctl3.NewReconcilerForVerif(configv3.NodeID(controllerutils.GetOnosConfigID()), w.txs3, w.cfgs3, w.conns, w.topo, w.reg)
		w.recs[cCfg] = cfgctl3.NewReconcilerForVerif(w.topo, w.conns, w.cfgs3)
		w.recs[cMast] = mastctl3.NewReconcilerForVerif(w.topo, w.cfgs3)
	} else {
		if w.txs, err = txstore.NewAtomixStore(w.backend); err != nil {
			panic(err)
		}
		if w.props, err = propstore.NewAtomixStore(w.backend); err != nil {
			panic(err)
		}
		if w.cfgs, err = cfgstore.NewAtomixStore(w.backend); err != nil {
			panic(err)
		}
		w.recs[cTx] = txctl.NewReconcilerForVerif(w.txs, w.props)
		w.recs[cProp] = propctl.NewReconcilerForVerif(w.topo, w.conns, w.props, w.cfgs, w.reg)
		w.recs[cCfg] = cfgctl.NewReconcilerForVerif(w.topo, w.conns, w.cfgs)
		w.recs[cMast] = mastctl.NewReconcilerForVerif(w.topo, w.cfgs)
		w.gnmi = nbgnmi.NewServerForVerif(w.topo, w.txs, w.props, w.cfgs, w.reg, w.conns, cfg.SetSizeLimit)
		w.admin = nbadmin.NewServerForVerif(w.txs, w.cfgs, w.reg)
	}
	w.recs[cConn] = connctl.NewReconcilerForVerif(w.topo, w.conns)
	w.recs[cTarget] = targetctl.NewReconcilerForVerif(w.topo, w.conns)

	// topo: the onos-config node entity and one configurable entity per target
	ctx := context.Background()
	node := &topoapi.Object{ID: controllerutils.GetOnosConfigID(), Type: topoapi.Object_ENTITY,
		Obj: &topoapi.Object_Entity{Entity: &topoapi.Entity{KindID: topoapi.ONOS_CONFIG}}}
	if err := w.topo.Create(ctx, node); err != nil {
		panic(err)
	}
	for i, t := range cfg.Targets {
		o := &topoapi.Object{ID: topoapi.ID(t), Type: topoapi.Object_ENTITY, Obj: &topoapi.Object_Entity{Entity: &topoapi.Entity{KindID: "mini"}}}
		if err := o.SetAspect(&topoapi.Configurable{Type: targetType(i), Version: targetVersion, Address: "dev-" + t + ":10161", Persistent: cfg.Persistent[t]}); err != nil {
			panic(err)
		}
		if err := o.SetAspect(&topoapi.TLSOptions{Plain: true, Insecure: true}); err != nil {
			panic(err)
		}
		if err := w.topo.Create(ctx, o); err != nil {
			panic(err)
		}
	}
	if cfg.V3 {
		// there is no v3 northbound in the repository: the configuration record of a target is created here, as
		// whoever appends the first transaction would, with the mastership status present and nothing else
		for _, t := range cfg.Targets {
			c := &configv3.Configuration{ID: configv3.ConfigurationID{Target: w.v3Target(t)}}
			c.Status.Mastership = &configv3.MastershipStatus{}
			if err := w.cfgs3.Create(ctx, c); err != nil {
				panic(err)
			}
		}
		w.fuse.ResetEffects()
	}
	w.topo.effects = 0
	w.startWatchers()
	synctest.Wait()
	return w
}

// v3Target is the v3 target triple of a target id.
func (w *World) v3Target(t string) configv3.Target {
	for i, x := range w.cfg.Targets {
		if x == t {
			return configv3.Target{ID: configv3.TargetID(t), Type: configv3.TargetType(targetType(i)), Version: targetVersion}
		}
	}
	panic("unknown target " + t)
}

func (w *World) newWatchers() []*watcherHandle {
	if w.cfg.V3 {
		return []*watcherHandle{
			{cTx, "tx.tx", txctl3.NewWatcherForVerif(w.txs3)},
			{cTx, "tx.cfg", txctl3.NewConfigurationWatcherForVerif(w.cfgs3)},
			{cCfg, "cfg.cfg", cfgctl3.NewWatcherForVerif(w.cfgs3)},
			{cCfg, "cfg.topo", cfgctl3.NewTopoWatcherForVerif(w.topo)},
			{cMast, "mast.topo", mastctl3.NewTopoWatcherForVerif(w.topo)},
			{cMast, "mast.cfg", mastctl3.NewConfigurationStoreWatcherForVerif(w.cfgs3)},
			{cConn, "conn.conn", connctl.NewConnWatcherForVerif(w.conns)},
			{cConn, "conn.topo", connctl.NewTopoWatcherForVerif(w.topo)},
			{cTarget, "target.topo", targetctl.NewTopoWatcherForVerif(w.topo)},
			{cTarget, "target.conn", targetctl.NewConnWatcherForVerif(w.conns)},
		}
	}
	return []*watcherHandle{
		{cTx, "tx.tx", txctl.NewWatcherForVerif(w.txs)},
		{cTx, "tx.prop", txctl.NewProposalWatcherForVerif(w.props)},
		{cProp, "prop.prop", propctl.NewWatcherForVerif(w.props)},
		{cProp, "prop.cfg", propctl.NewConfigurationWatcherForVerif(w.cfgs)},
		{cCfg, "cfg.cfg", cfgctl.NewWatcherForVerif(w.cfgs)},
		{cCfg, "cfg.topo", cfgctl.NewTopoWatcherForVerif(w.topo)},
		{cMast, "mast.topo", mastctl.NewTopoWatcherForVerif(w.topo)},
		{cMast, "mast.cfg", mastctl.NewConfigurationStoreWatcherForVerif(w.cfgs)},
		{cConn, "conn.conn", connctl.NewConnWatcherForVerif(w.conns)},
		{cConn, "conn.topo", connctl.NewTopoWatcherForVerif(w.topo)},
		{cTarget, "target.topo", targetctl.NewTopoWatcherForVerif(w.topo)},
		{cTarget, "target.conn", targetctl.NewConnWatcherForVerif(w.conns)},
	}
}

func idString(v interface{}) string {
	switch x := v.(type) {
	case configv3.TransactionID:
		return fmt.Sprintf("%s/%d", x.Target.ID, x.Index)
	case configv3.ConfigurationID:
		return string(x.Target.ID)
	}
	return fmt.Sprintf("%v", v)
}

func (w *World) startWatchers() {
	w.watchers = w.newWatchers()
	for _, h := range w.watchers {
		h := h
		ch := make(chan controller.ID)
		if err := h.w.Start(ch); err != nil {
			panic(fmt.Sprintf("watcher %s: %v", h.name, err))
		}
		go func() {
			for id := range ch {
				w.mu.Lock()
				w.arrived = append(w.arrived, Token{Ctrl: h.ctrl, ID: idString(id.Value), Src: h.name})
				w.mu.Unlock()
			}
		}()
	}
}

// stopWatchers stops the current watcher generation; tokens they still deliver are discarded by TakeTokens callers.
func (w *World) stopWatchers() {
	for _, h := range w.watchers {
		h.w.Stop()
	}
	w.watchers = nil
}

// TakeTokens returns the tokens that arrived since the last call, in arrival order.
func (w *World) TakeTokens() []Token {
	w.mu.Lock()
	defer w.mu.Unlock()
	t := w.arrived
	w.arrived = nil
	return t
}

func (w *World) controllerID(ctrl, id string) controller.ID {
	if w.cfg.V3 {
		switch ctrl {
		case cTx:
			i := strings.LastIndex(id, "/")
			var n uint64
			fmt.Sscan(id[i+1:], &n)
			return controller.NewID(configv3.TransactionID{Target: w.v3Target(id[:i]), Index: configv3.Index(n)})
		case cCfg, cMast:
			return controller.NewID(configv3.ConfigurationID{Target: w.v3Target(id)})
		}
	}
	switch ctrl {
	case cTx:
		var i uint64
		fmt.Sscan(id, &i)
		return controller.NewID(configapi.Index(i))
	case cProp:
		return controller.NewID(configapi.ProposalID(id))
	case cCfg, cMast:
		return controller.NewID(configapi.ConfigurationID(id))
	case cConn:
		return controller.NewID(sb.ConnID(id))
	case cTarget:
		return controller.NewID(topoapi.ID(id))
	}
	panic("unknown controller " + ctrl)
}

// StepResult is what one atomic reconcile step did.
type StepResult struct {
	Effects   int      // external effects (store writes, topo writes, device Sets that were processed)
	Writes    []string // their descriptions, in order
	Tokens    []Token  // tokens produced: watcher deliveries, the Requeue result, a retry after an error
	Err       string
	Panic     string
	DevLog    map[string][]devReq
	Docs      map[string][]pluginDoc
	Crashed   bool
	Requeued  bool
	Conflicts int // interleaved steps: store writes refused with a version conflict
	// DevHist: with WorldConfig.TrackDeviceHistory, per device "<newest term>|<path=value accepted in it>..." after the step
	DevHist map[string]string
}

// Step runs one real Reconcile call to completion and lets every event it caused be delivered.
func (w *World) Step(ctrl, id string) StepResult {
	w.fuse.ResetEffects()
	var res StepResult
	func() {
		defer func() {
			if r := recover(); r != nil {
				res.Panic = notePanic(r)
			}
		}()
		var result controller.Result
		var err error
		if w.stepWrap != nil {
			w.stepWrap(func() { result, err = w.recs[ctrl].Reconcile(w.controllerID(ctrl, id)) })
		} else {
			result, err = w.recs[ctrl].Reconcile(w.controllerID(ctrl, id))
		}
		if err != nil {
			res.Err = err.Error()
			res.Tokens = append(res.Tokens, Token{Ctrl: ctrl, ID: id, Src: "retry"})
		} else if result.Requeue.Value != nil {
			res.Requeued = true
			res.Tokens = append(res.Tokens, Token{Ctrl: ctrl, ID: idString(result.Requeue.Value), Src: "requeue"})
		}
	}()
	synctest.Wait()
	w.ReapCalls()
	res.Effects, res.Writes = w.fuse.ResetEffects()
	res.Crashed = w.fuse.Crashed()
	res.Tokens = append(w.TakeTokens(), res.Tokens...)
	res.DevLog = map[string][]devReq{}
	for t, d := range w.devices {
		if l := d.TakeLog(); len(l) > 0 {
			res.DevLog[t] = l
		}
	}
	if w.cfg.TrackDeviceHistory {
		res.DevHist = map[string]string{}
		for t, d := range w.devices {
			el, l := d.History()
			res.DevHist[t] = fmt.Sprintf("%d|%s", el, strings.Join(l, "\x01"))
		}
	}
	res.Docs = map[string][]pluginDoc{}
	for t, p := range w.plugins {
		if d := p.TakeDocs(); len(d) > 0 {
			res.Docs[t] = d
		}
	}
	return res
}

// reconcileOnce runs one Reconcile call on the calling goroutine (panics are contained).
func (w *World) reconcileOnce(ctrl, id string) (res StepResult) {
	defer func() {
		if r := recover(); r != nil {
			res.Panic = notePanic(r)
		}
	}()
	result, err := w.recs[ctrl].Reconcile(w.controllerID(ctrl, id))
	if err != nil {
		res.Err = err.Error()
		res.Tokens = append(res.Tokens, Token{Ctrl: ctrl, ID: id, Src: "retry"})
	} else if result.Requeue.Value != nil {
		res.Requeued = true
		res.Tokens = append(res.Tokens, Token{Ctrl: ctrl, ID: idString(result.Requeue.Value), Src: "requeue"})
	}
	return res
}

// StepInterleaved runs Reconcile(ctrl, id) on its own goroutine, holds it when its (k+1)-th store write reaches
// simatomix (before the write is executed), runs other() to completion, and lets the held call finish. reached is
// false when the call makes fewer than k+1 store writes (nothing was interleaved then).
func (w *World) StepInterleaved(ctrl, id string, k int, other func()) (res StepResult, reached bool) {
	w.fuse.ResetEffects()
	paused, resume, done := make(chan struct{}), make(chan struct{}), make(chan struct{})
	var mu sync.Mutex
	n, hit := 0, false
	conflictsBefore := w.atomix.conflicts
	w.atomix.writeGate = func() {
		mu.Lock()
		if n == k && !hit {
			hit = true
			mu.Unlock()
			close(paused)
			<-resume
			return
		}
		n++
		mu.Unlock()
	}
	go func() {
		defer close(done)
		res = w.reconcileOnce(ctrl, id)
	}()
	synctest.Wait()
	mu.Lock()
	reached = hit
	mu.Unlock()
	if reached {
		other()
		synctest.Wait()
		close(resume)
	}
	<-done
	w.atomix.writeGate = nil
	synctest.Wait()
	w.ReapCalls()
	res.Conflicts = w.atomix.conflicts - conflictsBefore
	res.Effects, res.Writes = w.fuse.ResetEffects()
	res.Crashed = w.fuse.Crashed()
	res.Tokens = append(w.TakeTokens(), res.Tokens...)
	res.DevLog = map[string][]devReq{}
	for t, d := range w.devices {
		if l := d.TakeLog(); len(l) > 0 {
			res.DevLog[t] = l
		}
	}
	if w.cfg.TrackDeviceHistory {
		res.DevHist = map[string]string{}
		for t, d := range w.devices {
			el, l := d.History()
			res.DevHist[t] = fmt.Sprintf("%d|%s", el, strings.Join(l, "\x01"))
		}
	}
	res.Docs = map[string][]pluginDoc{}
	for t, p := range w.plugins {
		if d := p.TakeDocs(); len(d) > 0 {
			res.Docs[t] = d
		}
	}
	return res, reached
}

// StepSplit runs Reconcile(ctrl, id) on its own goroutine and parks it when its (k+1)-th possibly effectful call
// (store write RPC, topo write, device Set) arrives at a simulated neighbour, before that call is executed. atHold
// then runs with the call parked: it may kill the rest of the step (fuse.Kill: the "hold" half of a split step) or
// swap the world for a later state (Restore: the "release" half – the step continues with what it read earlier).
// reached is false when the step makes fewer than k+1 such calls (atHold did not run, the step ran to completion).
func (w *World) StepSplit(ctrl, id string, k int, atHold func()) (res StepResult, reached bool) {
	w.fuse.ResetEffects()
	paused, resume, done := make(chan struct{}), make(chan struct{}), make(chan struct{})
	var mu sync.Mutex
	n, hit := 0, false
	conflictsBefore := 0
	if w.atomix != nil {
		conflictsBefore = w.atomix.conflicts
	}
	w.fuse.SetGate(func(kind string) {
		mu.Lock()
		if n == k && !hit {
			hit = true
			mu.Unlock()
			close(paused)
			<-resume
			return
		}
		n++
		mu.Unlock()
	})
	go func() {
		defer close(done)
		res = w.reconcileOnce(ctrl, id)
	}()
	synctest.Wait()
	mu.Lock()
	reached = hit
	mu.Unlock()
	if reached {
		atHold()
		synctest.Wait()
		close(resume)
	}
	<-done
	w.fuse.SetGate(nil)
	synctest.Wait()
	w.ReapCalls()
	if w.atomix != nil {
		res.Conflicts = w.atomix.conflicts - conflictsBefore
	}
	res.Effects, res.Writes = w.fuse.ResetEffects()
	res.Crashed = w.fuse.Crashed()
	res.Tokens = append(w.TakeTokens(), res.Tokens...)
	res.DevLog = map[string][]devReq{}
	for t, d := range w.devices {
		if l := d.TakeLog(); len(l) > 0 {
			res.DevLog[t] = l
		}
	}
	if w.cfg.TrackDeviceHistory {
		res.DevHist = map[string]string{}
		for t, d := range w.devices {
			el, l := d.History()
			res.DevHist[t] = fmt.Sprintf("%d|%s", el, strings.Join(l, "\x01"))
		}
	}
	res.Docs = map[string][]pluginDoc{}
	for t, p := range w.plugins {
		if d := p.TakeDocs(); len(d) > 0 {
			res.Docs[t] = d
		}
	}
	return res, reached
}

// Hold executes the first half of a split step on the current world: the step runs until its (k+1)-th possibly
// effectful call arrives and is abandoned there (nothing it does afterwards has any effect). The tokens returned are
// the watcher deliveries caused by the first half; the step's own return value is meaningless and dropped.
func (w *World) Hold(ctrl, id string, k int) (res StepResult, reached bool) {
	res, reached = w.StepSplit(ctrl, id, k, func() { w.fuse.Kill() })
	w.fuse.Disarm()
	if !reached {
		return res, false
	}
	var toks []Token
	for _, t := range res.Tokens {
		if t.Src != "retry" && t.Src != "requeue" {
			toks = append(toks, t)
		}
	}
	res.Tokens = toks
	res.Err, res.Requeued, res.Crashed = "", false, false
	return res, true
}

// Release executes the second half of a split step: the step is re-run from the world it began in (begin) up to the
// hold point – reproducing what it had read and done – the world is then swapped for the current one (now, which
// descends from begin plus the first half's effects) and the step continues there with its stale knowledge.
func (w *World) Release(ctrl, id string, k int, begin, now *WorldSnap) (res StepResult, reached bool) {
	w.Restore(begin)
	res, reached = w.StepSplit(ctrl, id, k, func() {
		w.Restore(now)
		w.fuse.ResetEffects()
	})
	return res, reached
}

// Settle waits for quiescence and returns the tokens that arrived (used after environment events and requests).
func (w *World) Settle() []Token {
	synctest.Wait()
	return w.TakeTokens()
}

// Restart models a process restart after a crash: every in-memory thing is gone (tokens, connections, watch
// registrations); the watchers start again with replay; persisted state (atomix, topo, devices) stays.
func (w *World) Restart() []Token {
	w.stopWatchers()
	synctest.Wait()
	w.TakeTokens()
	w.fuse.Disarm()
	w.conns.ProcessDied()
	w.startWatchers()
	synctest.Wait()
	toks := w.TakeTokens()
	for i := range toks {
		toks[i].Src = "replay"
	}
	return toks
}

// ---- snapshot / restore / canonical form ----

type WorldSnap struct {
	atomix  *simSnapshot
	topo    *simTopoSnap
	devices map[string]*simDevSnap
	conns   *simConnSnap
}

func (w *World) Snapshot() *WorldSnap {
	s := &WorldSnap{atomix: w.atomix.Snapshot(), topo: w.topo.Snapshot(), devices: map[string]*simDevSnap{}, conns: w.conns.Snapshot()}
	for t, d := range w.devices {
		s.devices[t] = d.Snapshot()
	}
	return s
}

// Restore puts the persisted and environment state back. The world must be quiescent; no token is produced.
func (w *World) Restore(s *WorldSnap) {
	w.atomix.Restore(s.atomix)
	w.topo.Restore(s.topo)
	for t, d := range w.devices {
		d.Restore(s.devices[t])
	}
	w.conns.Restore(s.conns)
	w.fuse.Disarm()
	w.TakeTokens()
	for _, p := range w.plugins {
		p.TakeDocs()
	}
}

// Canon renders the whole observable state canonically (no timestamps, versions or uuids).
func (w *World) Canon() string {
	var b strings.Builder
	b.WriteString(w.StoreCanon())
	b.WriteString("\n#topo " + strings.Join(w.topo.Canon(), ";"))
	ts := make([]string, 0, len(w.devices))
	for t := range w.devices {
		ts = append(ts, t)
	}
	sort.Strings(ts)
	for _, t := range ts {
		b.WriteString("\n#" + w.devices[t].Canon())
	}
	b.WriteString("\n#conns " + w.conns.Canon())
	return b.String()
}

// newGnmiServerWithConns builds a gNMI server like the world's but with another connection manager.
func newGnmiServerWithConns(w *World, conns sb.ConnManager) *nbgnmi.Server {
	return nbgnmi.NewServerForVerif(w.topo, w.txs, w.props, w.cfgs, w.reg, conns, w.cfg.SetSizeLimit)
}
