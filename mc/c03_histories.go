package mc

import (
	"context"
	"fmt"
	"sort"
	"strings"
	"testing/synctest"

	configapi "github.com/onosproject/onos-api/go/onos/config/v2"
	topoapi "github.com/onosproject/onos-api/go/onos/topo"
	"github.com/onosproject/onos-config/pkg/utils"
	"github.com/openconfig/gnmi/proto/gnmi"
	"github.com/openconfig/gnmi/proto/gnmi_ext"
)

func topoID(s string) topoapi.ID           { return topoapi.ID(s) }
func configIndex(i uint64) configapi.Index { return configapi.Index(i) }

func strPathAbs(p *gnmi.Path) string { return utils.StrPath(p) }

func transactionStrategyExt(sync bool) *gnmi_ext.Extension {
	s := configapi.TransactionStrategy{}
	if sync {
		s.Synchronicity = configapi.TransactionStrategy_SYNCHRONOUS
	}
	b, err := s.Marshal()
	if err != nil {
		panic(err)
	}
	return &gnmi_ext.Extension{Ext: &gnmi_ext.Extension_RegisteredExt{RegisteredExt: &gnmi_ext.RegisteredExtension{Id: configapi.TransactionStrategyExtensionID, Msg: b}}}
}

func isolationExt() *gnmi_ext.Extension {
	s := configapi.TransactionStrategy{Isolation: configapi.TransactionStrategy_SERIALIZABLE}
	b, err := s.Marshal()
	if err != nil {
		panic(err)
	}
	return &gnmi_ext.Extension{Ext: &gnmi_ext.Extension_RegisteredExt{RegisteredExt: &gnmi_ext.RegisteredExtension{Id: configapi.TransactionStrategyExtensionID, Msg: b}}}
}

// GoCall runs an arbitrary northbound call on its own goroutine.
func (w *World) GoCall(ctx context.Context, f func(ctx context.Context) (interface{}, error)) *Call {
	ctx, cancel := context.WithCancel(ctx)
	c := &Call{cancel: cancel}
	go func() {
		defer func() {
			if r := recover(); r != nil {
				c.Panic = notePanic(r)
			}
			c.Done = true
		}()
		c.Resp, c.Err = f(ctx)
	}()
	w.calls = append(w.calls, c)
	synctest.Wait()
	w.ReapCalls()
	return c
}

func uintCase(w int, v string) *c17Case { return &c17Case{Kind: "uint", Width: w, Elems: []string{v}} }
func intCase(w int, v string) *c17Case  { return &c17Case{Kind: "int", Width: w, Elems: []string{v}} }

// c03Alphabet – simplest first.
var c03Alphabet = []SetReq{
	{Name: "leafA=x", Ops: []ReqOp{{Kind: "update", Target: "T1", Path: "/cont/leafA", Val: "x"}}},
	{Name: "leafA=y", Ops: []ReqOp{{Kind: "update", Target: "T1", Path: "/cont/leafA", Val: "y"}}},
	{Name: "leafA2=z", Ops: []ReqOp{{Kind: "update", Target: "T1", Path: "/cont/leafA2", Val: "z"}}},
	{Name: "leafB=7", Ops: []ReqOp{{Kind: "update", Target: "T1", Path: "/cont/sub/leafB", Typed: uintCase(32, "7")}}},
	{Name: "list[a].val=1", Ops: []ReqOp{{Kind: "update", Target: "T1", Path: "/cont/list[name=a]/val", Val: "1"}}},
	{Name: "list[ab].val=2", Ops: []ReqOp{{Kind: "update", Target: "T1", Path: "/cont/list[name=ab]/val", Val: "2"}}},
	{Name: "l2[1,x].val=5", Ops: []ReqOp{{Kind: "update", Target: "T1", Path: "/cont/l2[k1=1][k2=x]/val", Typed: intCase(32, "5")}}},
	{Name: "top=t", Ops: []ReqOp{{Kind: "update", Target: "T1", Path: "/top", Val: "t"}}},
	{Name: "del leafA", Ops: []ReqOp{{Kind: "delete", Target: "T1", Path: "/cont/leafA"}}},
	{Name: "del sub", Ops: []ReqOp{{Kind: "delete", Target: "T1", Path: "/cont/sub"}}},
	{Name: "del cont", Ops: []ReqOp{{Kind: "delete", Target: "T1", Path: "/cont"}}},
	{Name: "del list[a]", Ops: []ReqOp{{Kind: "delete", Target: "T1", Path: "/cont/list[name=a]"}}},
	{Name: "del list", Ops: []ReqOp{{Kind: "delete", Target: "T1", Path: "/cont/list"}}},
	{Name: "del list[a].val", Ops: []ReqOp{{Kind: "delete", Target: "T1", Path: "/cont/list[name=a]/val"}}},
	{Name: "del cont + leafB=9", Ops: []ReqOp{{Kind: "delete", Target: "T1", Path: "/cont"}, {Kind: "update", Target: "T1", Path: "/cont/sub/leafB", Typed: uintCase(32, "9")}}},
	{Name: "list[a].name=a + val=3", Ops: []ReqOp{{Kind: "update", Target: "T1", Path: "/cont/list[name=a]/name", Val: "a"}, {Kind: "update", Target: "T1", Path: "/cont/list[name=a]/val", Val: "3"}}},
	{Name: "T1.leafA=p + T2.leafA=q", Ops: []ReqOp{{Kind: "update", Target: "T1", Path: "/cont/leafA", Val: "p"}, {Kind: "update", Target: "T2", Path: "/cont/leafA", Val: "q"}}},
	{Name: "leafA=m + leafA2=n + top=o", Ops: []ReqOp{{Kind: "update", Target: "T1", Path: "/cont/leafA", Val: "m"}, {Kind: "update", Target: "T1", Path: "/cont/leafA2", Val: "n"}, {Kind: "update", Target: "T1", Path: "/top", Val: "o"}}},
	{Name: "prefix /cont: leafA=k + del sub", PrefixTarget: "T1", PrefixPath: "/cont", Ops: []ReqOp{{Kind: "update", Path: "/leafA", Val: "k"}, {Kind: "delete", Path: "/sub"}}},
}

var c03Queries = []GetQuery{
	{Target: "T1"},
	{Target: "T1", Path: "/cont"},
	{Target: "T1", Path: "/cont/leafA"},
	{Target: "T1", Path: "/cont/leafA2"},
	{Target: "T1", Path: "/cont/sub"},
	{Target: "T1", Path: "/cont/sub/leafB"},
	{Target: "T1", Path: "/cont/list"},
	{Target: "T1", Path: "/cont/list[name=a]"},
	{Target: "T1", Path: "/cont/list[name=a]/val"},
	{Target: "T1", Path: "/cont/list[name=*]/val"},
	{Target: "T1", Path: "/cont/list[name=ab]"},
	{Target: "T1", Path: "/cont/l2[k1=1][k2=x]/val"},
	{Target: "T1", Path: "/cont/l2"},
	{Target: "T1", Path: "/cont/.../val"},
	{Target: "T1", Path: "/*/leafA"},
	{Target: "T1", Path: "/top"},
	{Target: "T1", PrefixPath: "/cont", Path: "/leafA"},
	{Target: "T1", PrefixPath: "/cont/list[name=a]", Path: "/val"},
	{Target: "T1", PrefixPath: "/cont/leafA"},
	{Target: "T1", PrefixPath: "/cont/list[name=a]/val"},
	{Target: "T1", PrefixPath: "/cont/sub"},
	{Target: "T1", Path: "/nothing"},
	{Target: "T2"},
	{Target: "T2", Path: "/cont/leafA"},
}

type c03Node struct {
	snap *WorldSnap
	refs map[string]refCfg
	hist []string
}

func c03RefKey(refs map[string]refCfg) string {
	var b strings.Builder
	for _, t := range sortedKeys(refs) {
		b.WriteString(t + refs[t].String())
	}
	return b.String()
}

// c03StoredKey renders the stored configurations without indexes (values and tombstones only).
func c03StoredKey(w *World) string {
	v := w.View()
	var parts []string
	for _, c := range v.Cfgs {
		keys := make([]string, 0, len(c.Values))
		for k, pv := range c.Values {
			if pv.Deleted {
				keys = append(keys, k+"=D")
			} else {
				keys = append(keys, k+"="+tvText(&pv.Value))
			}
		}
		sort.Strings(keys)
		parts = append(parts, string(c.TargetID)+"{"+strings.Join(keys, ";")+"}")
	}
	sort.Strings(parts)
	return strings.Join(parts, " ")
}

// c03LiveKey renders what Get can observe: the live (non-deleted) stored values of every target.
func c03LiveKey(w *World) string {
	v := w.View()
	var parts []string
	for _, c := range v.Cfgs {
		var keys []string
		for k, pv := range c.Values {
			if !pv.Deleted {
				keys = append(keys, k+"="+tvText(&pv.Value))
			}
		}
		sort.Strings(keys)
		parts = append(parts, string(c.TargetID)+"{"+strings.Join(keys, ";")+"}")
	}
	sort.Strings(parts)
	return strings.Join(parts, " ")
}

// c03Cause classifies a Get discrepancy by its cause.
// c03ByName finds a request of the alphabet.
func c03ByName(name string) (SetReq, bool) {
	for _, r := range c03Alphabet {
		if r.Name == name {
			return r, true
		}
	}
	return SetReq{}, false
}

// c03MissingCause explains from the history why a live leaf may have got lost.
func c03MissingCause(hist []string, target, leaf string) string {
	lastWrite := -1
	var reqs []map[string][]refOp
	for i, name := range hist {
		r, _ := c03ByName(name)
		ops := r.refOps()
		reqs = append(reqs, ops)
		for _, op := range ops[target] {
			if !op.Delete && op.Path == leaf {
				lastWrite = i
			}
		}
	}
	if lastWrite < 0 {
		return "other"
	}
	lp := c18Split(leaf)
	for _, op := range reqs[lastWrite][target] {
		if op.Delete && c18Covers(c18Split(op.Path), lp) {
			return "update-below-delete-in-same-request-lost"
		}
	}
	for i := 0; i < lastWrite; i++ {
		for _, op := range reqs[i][target] {
			if op.Delete && op.Path != leaf && c18Covers(c18Split(op.Path), lp) {
				return "leaf-written-under-previously-deleted-ancestor-lost"
			}
		}
	}
	return "other"
}

func c03Cause(ref refCfg, hist []string, target, query string, missing, extra []string) string {
	q := refSplitQuery(query)
	// leaves returned although the query does not select them at element boundaries: does the query select them
	// once the leaf's element name at the query's last position is cut down to the query's last name?
	for _, p := range extra {
		if _, live := ref[p]; !live || len(q) == 0 {
			continue
		}
		pe := c18Split(p)
		last := len(q) - 1
		if len(pe) > last && q[last].name != "*" && q[last].name != "..." && pe[last].name != q[last].name && strings.HasPrefix(pe[last].name, q[last].name) {
			cut := append([]c18Elem{}, pe...)
			cut[last] = c18Elem{name: q[last].name, keys: pe[last].keys}
			if refMatch(q, cut) {
				return "get-matches-textual-prefix-sibling"
			}
		}
	}
	for _, p := range extra {
		if _, live := ref[p]; !live {
			return "deleted-leaf-still-readable"
		}
	}
	if len(missing) > 0 {
		return "live-leaf-not-readable/" + c03MissingCause(hist, target, missing[0])
	}
	return "other"
}

func c03CheckGets(rep *Report, w *World, refs map[string]refCfg, hist []string, evals *int, classPrefix string) {
	for _, q := range c03Queries {
		ref, ok := refs[q.Target]
		if !ok {
			ref = refCfg{}
		}
		want := ref.get(q.full())
		replay := map[string]interface{}{"kind": "c03-history", "history": hist, "query": q}
		*evals++
		got, err := w.GetProto(q)
		if err != nil {
			if len(ref) == 0 && len(want) == 0 {
				// a target that was never configured has no configuration record: Get answers NotFound
				continue
			}
			rep.Violate(classPrefix+"get-error/proto", fmt.Sprintf("after %v: PROTO Get %+v fails: %v (reference %s)", hist, q, err, ref), replay)
			continue
		}
		if missing, extra, wrong := diffLeaves(want, got); len(missing)+len(extra)+len(wrong) > 0 {
			rep.Violate(classPrefix+"proto/"+c03Cause(ref, hist, q.Target, q.full(), missing, extra),
				fmt.Sprintf("after %v: PROTO Get %q on %s: missing %v, unexpected %v, wrong %v; reference %s", hist, q.full(), q.Target, missing, extra, wrong, ref), replay)
		}
		*evals++
		gotJ, problems, err := w.GetJSON(q)
		if err != nil {
			rep.Violate(classPrefix+"get-error/json", fmt.Sprintf("after %v: JSON Get %+v fails: %v", hist, q, err), replay)
			continue
		}
		for _, p := range problems {
			rep.Violate(classPrefix+"json/structure", fmt.Sprintf("after %v: JSON Get %q: %s", hist, q.full(), p), replay)
		}
		wantJ := map[string]string{}
		for p, v := range want {
			wantJ[p] = normToJSONText(v)
		}
		if missing, extra, wrong := diffLeaves(withoutKeyLeaves(wantJ), withoutKeyLeaves(gotJ)); len(missing)+len(extra)+len(wrong) > 0 {
			rep.Violate(classPrefix+"json/"+c03Cause(ref, hist, q.Target, q.full(), missing, extra),
				fmt.Sprintf("after %v: JSON Get %q on %s: missing %v, unexpected %v, wrong %v; reference %s", hist, q.full(), q.Target, missing, extra, wrong, ref), replay)
		}
	}
}

// permutations of the operations of a request (identity first)
func permuteOps(ops []ReqOp) [][]ReqOp {
	if len(ops) <= 1 {
		return [][]ReqOp{ops}
	}
	var out [][]ReqOp
	var rec func(cur []ReqOp, rest []ReqOp)
	rec = func(cur, rest []ReqOp) {
		if len(rest) == 0 {
			out = append(out, append([]ReqOp{}, cur...))
			return
		}
		for i := range rest {
			nr := append(append([]ReqOp{}, rest[:i]...), rest[i+1:]...)
			rec(append(cur, rest[i]), nr)
		}
	}
	rec(nil, ops)
	return out
}

func checkC03(rc *RunCtx) *Report {
	rep := newReport("exploration")
	hw := NewHistWorld(WorldConfig{Targets: []string{"T1", "T2"}}, true)
	w := hw.W
	maxLen := 3
	if rc.Thorough() {
		maxLen = 4
	}
	if rc.Replay != "" {
		var hist []string
		if err := loadReplay(rc.Replay, "history", &hist); err != nil {
			rep.HarnessErr = err.Error()
			return rep
		}
		refs := map[string]refCfg{}
		evals := 0
		for _, name := range hist {
			for _, r := range c03Alphabet {
				if r.Name == name {
					res := hw.ExecSet(context.Background(), r.build(), nil)
					if res.Err == nil && res.Done {
						for t, ops := range r.refOps() {
							if refs[t] == nil {
								refs[t] = refCfg{}
							}
							refs[t] = refs[t].apply(ops)
						}
					}
					fmt.Printf("replay %q: done=%v err=%v steps=%d\n", name, res.Done, res.Err, res.Steps)
				}
			}
		}
		c03CheckGets(rep, w, refs, hist, &evals, "")
		fmt.Println(w.StoreCanon())
		rep.Coverage["evaluations"] = evals
		return rep
	}
	nums, _ := runSharded(rc, rep, defaultWorkers(), func(sh Shard, rep *Report) *ShardResult {
		return c03Body(rc, sh, rep, hw, maxLen)
	})
	rep.Coverage["evaluations"] = nums["evaluations"]
	rep.Coverage["distinct_nontrivial"] = nums["distinct:states"]
	rep.Coverage["histories_executed"] = nums["histories"]
	rep.Coverage["order_variation_runs"] = nums["order_runs"]
	rep.Coverage["rule"] = fmt.Sprintf("all histories of length <=%d over an alphabet of %d Set requests (BFS from every distinct reached state: reference content x stored values incl. tombstones), each run to idle through the real Set handler and controllers with devices connected; after every acknowledged Set %d Get queries x {PROTO, JSON} are compared with the reference model; multi-operation requests (at depth <=%d) are re-run under every permutation of their operations and every single map-iteration-order deviation; evaluations = Get comparisons; non-trivial = distinct (reference, stored) contents reached", maxLen, len(c03Alphabet), len(c03Queries), c03OrderDepth(rc))
	rep.Assumptions = append(rep.Assumptions, "default (oldest-first) schedule; interleavings are the business of C01/C02/C09", "PROTO Get update paths are read as absolute paths, as the implementation reports them")
	return rep
}

func c03OrderDepth(rc *RunCtx) int {
	if rc.Thorough() {
		return 3
	}
	return 2
}

func c03Body(rc *RunCtx, sh Shard, rep *Report, hw *HistWorld, maxLen int) *ShardResult {
	w := hw.W
	out := newShardResult()
	evals, execs, orderRuns := 0, 0, 0
	distinct := hashSet{}
	root := &c03Node{snap: w.Snapshot(), refs: map[string]refCfg{}}
	frontier := []*c03Node{root}
	seen := hashSet{}
	for depth := 1; depth <= maxLen && !rc.Expired(); depth++ {
		var next []*c03Node
		for ni, n := range frontier {
			if rc.Expired() {
				break
			}
			// depth 1 is expanded by every shard (cheap); its oracles are evaluated by shard 0 only.
			// From depth 2 on the frontier is split among the shards.
			if depth == 2 && !sh.Mine(ni) {
				continue
			}
			evaluate := depth > 1 || sh.I == 0
			for _, r := range c03Alphabet {
				hist := append(append([]string{}, n.hist...), r.Name)
				w.Restore(n.snap)
				res := hw.ExecSet(context.Background(), r.build(), nil)
				replay := map[string]interface{}{"kind": "c03-history", "history": hist}
				refs := map[string]refCfg{}
				for t, c := range n.refs {
					refs[t] = c
				}
				bad := false
				if len(res.Panics) > 0 || res.Panic != "" {
					if evaluate {
						rep.Violate("panic", fmt.Sprintf("after %v: panic %v %v", hist, res.Panic, res.Panics), replay)
					}
					bad = true
				} else if !res.Done || !res.Idle {
					if evaluate {
						rep.Violate("not-answered", fmt.Sprintf("history %v: request not answered (done=%v idle=%v steps=%d)", hist, res.Done, res.Idle, res.Steps), replay)
					}
					bad = true
				}
				if bad {
					continue
				}
				if res.Err != nil {
					// a valid request of the alphabet must be accepted
					if evaluate {
						rep.Violate("valid-set-refused", fmt.Sprintf("history %v: Set refused: %v", hist, res.Err), replay)
					}
				} else {
					for t, ops := range r.refOps() {
						if refs[t] == nil {
							refs[t] = refCfg{}
						}
						refs[t] = refs[t].apply(ops)
					}
				}
				key := c03RefKey(refs) + " || " + c03StoredKey(w)
				if evaluate {
					execs++
					c03CheckGets(rep, w, refs, hist, &evals, "")
					distinct.Add(key)
					if execs%97 == 1 {
						rep.Sample(5, map[string]interface{}{"history": hist, "reference": c03RefKey(refs)})
					}
				}
				var succ *WorldSnap
				if seen.Add(key) && depth < maxLen {
					succ = w.Snapshot()
					next = append(next, &c03Node{snap: succ, refs: refs, hist: hist})
				}
				// incidental ordering inside a request: every permutation of the operations and every single
				// deviation of a map iteration order must give the same stored result
				// (a request with a delete is included even when it has one operation: which model path the handler
				// picks for a non-leaf delete depends on the iteration order of the model's path map)
				hasDelete := false
				for _, o := range r.Ops {
					if o.Kind == "delete" {
						hasDelete = true
					}
				}
				if evaluate && (len(r.Ops) > 1 && depth <= c03OrderDepth(rc) || hasDelete && depth <= 2) {
					orderRuns += c03OrderRuns(rep, hw, n, r, hist, res)
				}
			}
		}
		frontier = next
	}
	if rc.Expired() {
		rep.Exhaustive = false
	}
	out.Numbers["evaluations"] = int64(evals)
	out.Numbers["histories"] = int64(execs)
	out.Numbers["order_runs"] = int64(orderRuns)
	out.Distinct["states"] = distinct.List()
	return out
}

// c03DeleteCoversUpdate: does the request delete a node and write beneath it?
func c03DeleteCoversUpdate(r SetReq) bool {
	for _, ops := range r.refOps() {
		for _, d := range ops {
			if !d.Delete {
				continue
			}
			for _, u := range ops {
				if !u.Delete && c18Covers(c18Split(d.Path), c18Split(u.Path)) {
					return true
				}
			}
		}
	}
	return false
}

func c03OrderRuns(rep *Report, hw *HistWorld, n *c03Node, r SetReq, hist []string, res ExecResult) int {
	w := hw.W
	orderClass := func(site string) string {
		if c03DeleteCoversUpdate(r) {
			return "order-dependent/delete-and-update-below-in-same-request"
		}
		return "order-dependent/" + site
	}
	runs := 0
	base := c03LiveKey(w)
	for pi, perm := range permuteOps(r.Ops) {
		sites := res.Sites
		pr := r
		pr.Ops = perm
		if pi > 0 {
			w.Restore(n.snap)
			res2 := hw.ExecSet(context.Background(), pr.build(), nil)
			runs++
			sites = res2.Sites
			if got := c03LiveKey(w); got != base || (res2.Err == nil) != (res.Err == nil) {
				rep.Violate(orderClass("op-permutation"), fmt.Sprintf("history %v: permutation %d of the operations leaves the readable leaves %s instead of %s", hist, pi, got, base),
					map[string]interface{}{"kind": "c03-history", "history": hist, "perm": pi})
			}
		}
		for dev := 0; dev < len(sites) && dev < 120; dev++ {
			for rot := 1; rot < sites[dev].Len && (rot < 4 || sites[dev].Len <= 24 && strings.Contains(sites[dev].Func, "FindPathFromModel")); rot++ {
				offs := make([]uint8, dev+1)
				offs[dev] = uint8(rot)
				w.Restore(n.snap)
				res2 := hw.ExecSet(context.Background(), pr.build(), offs)
				runs++
				if got := c03LiveKey(w); got != base || (res2.Err == nil) != (res.Err == nil) {
					rep.Violate(orderClass("map-order:"+shortFunc(sites[dev].Func)), fmt.Sprintf("history %v: permutation %d of the operations with map-order deviation at steered iteration %d (%s, %d entries, rotation %d) leaves the readable leaves %s instead of %s", hist, pi, dev, sites[dev].Func, sites[dev].Len, rot, got, base),
						map[string]interface{}{"kind": "c03-history", "history": hist, "perm": pi, "offs": offs})
				}
			}
		}
	}
	return runs
}

func shortFunc(f string) string {
	if i := strings.LastIndex(f, "/"); i >= 0 {
		f = f[i+1:]
	}
	return f
}

func init() { registerBubble("C03", checkC03) }
