package mc

import (
	"context"
	"fmt"
	"os"
	"sort"
	"strings"

	"github.com/openconfig/gnmi/proto/gnmi"
	"google.golang.org/grpc/codes"
)

// E1 – explicit-state search over atomic steps of the real code (stateful BFS with snapshot/restore).
//
// A state is (persisted + environment state of the world, controller queues, scenario counters). Transitions:
//   step   : one real Reconcile call for a token the queue model offers
//   client : the next request of the scenario is submitted through the real handler
//   fault  : an environment event (budgeted)
//   crash  : a step interrupted after its k-th external effect, followed by a process restart (budgeted)
//
// Queue models:
//   exact   : one FIFO per watcher (tokens in arrival order), arbitrary merge between watchers, a bag per controller
//             for Requeue results and retries – the discipline of the onos-lib-go controller runtime
//   workset : pending (controller, id) pairs as a set, any order (C09's quantifier); an abstraction

type QueueMode int

const (
	QExact QueueMode = iota
	QWorkSet
	// QAny is the any-time model: no queues at all; from every state every reconciler is tried on every existing
	// object id and each call with an external effect is a transition. Every execution of the real controllers,
	// whatever their queues do, is a path of this graph.
	QAny
)

type absEdge struct {
	tr Trans
	to *E1State
}

// Trans is one transition of the search graph.
type Trans struct {
	Kind  string `json:"kind"` // step | client | fault | crash | restart
	Ctrl  string `json:"ctrl,omitempty"`
	ID    string `json:"id,omitempty"`
	Src   string `json:"src,omitempty"`   // queue the token was taken from
	K     int    `json:"k,omitempty"`     // crash: number of effects that still happen; interleave: store writes before the pause
	Fault string `json:"fault,omitempty"` // fault name or request name
	// interleave: the step or request that runs while (Ctrl, ID) is held before its (K+1)-th store write
	Ctrl2 string `json:"ctrl2,omitempty"`
	ID2   string `json:"id2,omitempty"`
	// Map: iteration start offsets for the steered map iterations of a step (offset i applies to the i-th map iteration
	// of the step inside onos-config's controllers / northbound / utils; empty = every map in insertion order)
	Map []uint8 `json:"map,omitempty"`
}

// stepT runs a step transition with its map-order deviation, if any.
func (w *World) stepT(t Trans) StepResult {
	if len(t.Map) == 0 {
		return w.Step(t.Ctrl, t.ID)
	}
	var r StepResult
	withMapOrder(t.Map, func() { r = w.Step(t.Ctrl, t.ID) })
	return r
}

func (t Trans) String() string {
	switch t.Kind {
	case "step":
		if len(t.Map) > 0 {
			return fmt.Sprintf("%s(%s)~map%v", t.Ctrl, t.ID, t.Map)
		}
		return fmt.Sprintf("%s(%s)", t.Ctrl, t.ID)
	case "crash":
		return fmt.Sprintf("crash@%d:%s(%s)", t.K, t.Ctrl, t.ID)
	case "hold":
		return fmt.Sprintf("hold@%d:%s(%s)", t.K, t.Ctrl, t.ID)
	case "release":
		return fmt.Sprintf("release@%d:%s(%s)", t.K, t.Ctrl, t.ID)
	case "interleave":
		if t.Ctrl2 == "" {
			return fmt.Sprintf("%s(%s)[client:%s before write %d]", t.Ctrl, t.ID, t.Fault, t.K+1)
		}
		return fmt.Sprintf("%s(%s)[%s(%s) before write %d]", t.Ctrl, t.ID, t.Ctrl2, t.ID2, t.K+1)
	default:
		return t.Kind + ":" + t.Fault
	}
}

// Env is the scenario-level part of a state.
type Env struct {
	NextReq int
	Faults  int
	Crashes int
	Inter   int    // interleaved steps used
	Flags   string // scenario-specific, e.g. which faults were already used
	// split steps: Held describes the reconcile call that is parked before one of its effects ("" = none):
	// controller|id|k|content hash of the world it began in. HeldSteps counts the transitions taken since.
	Held      string
	HeldSteps int
	Holds     int // split steps used on this path
}

// heldBlocks tells whether a step of (ctrl, id) has to wait for the held call of (heldCtrl, heldID). The controller
// runtime (onos-lib-go) runs the requests of one partition one after the other and different partitions concurrently:
// every controller has a single partition, except the v2 proposal controller, which is partitioned by target – the
// proposals of different targets are reconciled concurrently.
func heldBlocks(w *World, heldCtrl, heldID, ctrl, id string) bool {
	if heldCtrl == "" || ctrl != heldCtrl {
		return false
	}
	if ctrl == cProp && !w.cfg.V3 {
		ht, _ := proposalIndex(heldID)
		t, _ := proposalIndex(id)
		return ht == t
	}
	return true
}

// heldParts decodes Env.Held.
func heldParts(h string) (ctrl, id string, k int) {
	p := strings.Split(h, "|")
	fmt.Sscan(p[2], &k)
	return p[0], p[1], k
}

// E1State is a node of the search graph.
type E1State struct {
	snap    *WorldSnap
	queues  map[string][]string
	env     Env
	key     uint64
	content uint64 // hash of the world content alone (no queues, no counters)
	parent  *E1State
	via     Trans
	depth   int
	// the canonical store text of the state (kept for oracles and for trace validation)
	storeCanon string
	// aux is check-specific memory carried along the path (part of the state identity)
	aux string
	// heldSnap is the world the held call (env.Held) began in; it comes from this state's own path, so its version
	// numbering is consistent with snap
	heldSnap *WorldSnap
}

// Trace returns the transitions from the initial state.
func (s *E1State) Trace() []Trans {
	var tr []Trans
	for n := s; n.parent != nil; n = n.parent {
		tr = append(tr, n.via)
	}
	for i, j := 0, len(tr)-1; i < j; i, j = i+1, j-1 {
		tr[i], tr[j] = tr[j], tr[i]
	}
	return tr
}

func (s *E1State) TraceStrings() []string {
	var out []string
	for _, t := range s.Trace() {
		out = append(out, t.String())
	}
	return out
}

// Idle reports whether no controller work is pending.
func (s *E1State) Idle() bool {
	if s.env.Held != "" {
		return false
	}
	for _, q := range s.queues {
		if len(q) > 0 {
			return false
		}
	}
	return true
}

// FaultSpec is an environment event of a scenario.
type FaultSpec struct {
	Name    string
	Enabled func(w *World, env Env) bool
	Apply   func(w *World)
	Flag    string // appended to Env.Flags when used (to make a fault usable once)
}

// Scenario describes a closed system to explore.
type Scenario struct {
	Name        string
	Cfg         WorldConfig
	Init        func(w *World)         // runs before the initial drain (verdicts, connections, …)
	Prefix      []func(w *World) *Call // requests run to idle before exploration starts (non-initial start states)
	Requests    []SetReqOrCall         // requests submitted during exploration, in order, at any time
	Faults      []FaultSpec
	FaultBudget int
	CrashBudget int
	// InterleaveBudget: how many times on a path a reconcile step may be held before one of its store writes
	// while another effectful step or the next client request runs to completion (write conflicts, stale reads)
	InterleaveBudget int
	// HoldBudget: how many times on a path a reconcile step may be split: parked before its (k+1)-th possibly
	// effectful call (store write, topo write, device Set) while up to HoldDepth other transitions – steps of other
	// controllers, client requests, faults – take place, and then continued with what it had read before.
	HoldBudget int
	HoldDepth  int
	Mode       QueueMode
	MaxStates  int
	// map-order exploration: number of single-site deviations tried per step (0 = default order only)
	MapOrderDeviations bool
}

// SetReqOrCall is a client request of a scenario.
type SetReqOrCall struct {
	Name string
	Set  *gnmi.SetRequest
	Call func(w *World) *Call // alternative to Set (e.g. a rollback)
	// Enabled, when set, tells whether the request can be submitted in the current state of the world
	Enabled func(w *World) bool
}

// Hooks are the oracles of a check.
type Hooks struct {
	// OnTransition is called for every executed transition (also those leading to known states).
	OnTransition func(x *Explorer, from *E1State, tr Trans, res *StepResult, to *E1State)
	// OnState is called once for every new state with the world restored to it.
	OnState func(x *Explorer, s *E1State)
	// OnExpanded is called after all transitions of a state were executed; out is the number of transitions that
	// left the state's content (0 in the any-time model means: no reconciler can do anything any more).
	OnExpanded func(x *Explorer, s *E1State, out int)
	// Aux computes the check-specific memory of the successor (optional).
	Aux func(x *Explorer, from *E1State, tr Trans, res *StepResult) string
}

// Explorer runs the search.
type Explorer struct {
	RC    *RunCtx
	Rep   *Report
	Sc    *Scenario
	W     *World
	Hooks Hooks

	States        int
	Transitions   int
	Probes        int // any-time model: reconcile calls tried (with or without effect)
	Interleavings int // interleaved step pairs executed
	IdleStates    int
	MaxDepth      int
	Capped        bool
	visited       map[uint64]*E1State
	init          *E1State
	warned        map[string]bool
	conflicts     int // steps in which a store write returned a conflict (vacuity guard)
	// the content graph (world contents and moves between them), for the exact-queue confirmation
	contentSnap  map[uint64]*WorldSnap
	contentEdges map[uint64]map[uint64]struct{}
	// the abstraction's own graph: outgoing edges per state
	out       map[uint64][]absEdge
	terminals hashSet
	Splits    int // split steps: release transitions executed
	// MapDeviations: steps re-executed with another map iteration order
	MapDeviations int
	// realized is the schedule the last RealizeExact call really executed (blockers and pulled-forward steps included)
	realized []Trans
}

func queueKey(mode QueueMode, t Token) string {
	if mode == QWorkSet {
		return "ws"
	}
	// Requeue results, retries and the replay after a restart are bags: the runtime delivers them in no particular
	// order (the stores list their records in no particular order on the real atomix backend)
	if t.Src == "requeue" || t.Src == "retry" || t.Src == "replay" {
		return "rq:" + t.Ctrl
	}
	return "w:" + t.Src
}

// enqueue adds tokens to a copy of the queues.
func enqueue(mode QueueMode, queues map[string][]string, tokens []Token) map[string][]string {
	out := make(map[string][]string, len(queues)+2)
	for k, v := range queues {
		out[k] = v // slices are never mutated in place
	}
	for _, t := range tokens {
		k := queueKey(mode, t)
		item := t.Ctrl + "|" + t.ID
		cur := out[k]
		switch {
		case mode == QWorkSet:
			found := false
			for _, x := range cur {
				if x == item {
					found = true
					break
				}
			}
			if !found {
				n := append(append([]string{}, cur...), item)
				sort.Strings(n)
				out[k] = n
			}
		case strings.HasPrefix(k, "rq:"):
			n := append(append([]string{}, cur...), item)
			sort.Strings(n) // a bag
			out[k] = n
		default:
			out[k] = append(append([]string{}, cur...), item)
		}
	}
	return out
}

// choices lists the tokens that may run next.
func choices(mode QueueMode, queues map[string][]string) []Trans {
	var out []Trans
	keys := make([]string, 0, len(queues))
	for k := range queues {
		keys = append(keys, k)
	}
	sort.Strings(keys)
	for _, k := range keys {
		q := queues[k]
		if len(q) == 0 {
			continue
		}
		if mode == QExact && strings.HasPrefix(k, "w:") {
			p := strings.SplitN(q[0], "|", 2)
			out = append(out, Trans{Kind: "step", Ctrl: p[0], ID: p[1], Src: k})
			continue
		}
		var last string
		for _, item := range q {
			if item == last {
				continue
			}
			last = item
			p := strings.SplitN(item, "|", 2)
			out = append(out, Trans{Kind: "step", Ctrl: p[0], ID: p[1], Src: k})
		}
	}
	return out
}

// dequeue removes the chosen token from a copy of the queues.
func dequeue(queues map[string][]string, tr Trans) map[string][]string {
	out := make(map[string][]string, len(queues))
	for k, v := range queues {
		out[k] = v
	}
	q := out[tr.Src]
	item := tr.Ctrl + "|" + tr.ID
	for i, x := range q {
		if x == item {
			out[tr.Src] = append(append([]string{}, q[:i]...), q[i+1:]...)
			break
		}
	}
	return out
}

func queuesCanon(queues map[string][]string) string {
	keys := make([]string, 0, len(queues))
	for k, v := range queues {
		if len(v) > 0 {
			keys = append(keys, k)
		}
	}
	sort.Strings(keys)
	var b strings.Builder
	for _, k := range keys {
		b.WriteString(k + "=[" + strings.Join(queues[k], ",") + "]")
	}
	return b.String()
}

func (x *Explorer) stateKey(canon string, queues map[string][]string, env Env, aux string) uint64 {
	return hash64(canon + "\n#q " + queuesCanon(queues) + fmt.Sprintf("\n#env %d %d %d %d %s %s %d %d", env.NextReq, env.Faults, env.Crashes, env.Inter, env.Flags, env.Held, env.HeldSteps, env.Holds) + "\n#aux " + aux)
}

// newState snapshots the current world as a state (or returns the known one).
func (x *Explorer) newState(from *E1State, tr Trans, queues map[string][]string, env Env, aux string) (*E1State, bool) {
	canon := x.W.Canon()
	key := x.stateKey(canon, queues, env, aux)
	if s, ok := x.visited[key]; ok {
		return s, false
	}
	s := &E1State{snap: x.W.Snapshot(), queues: queues, env: env, key: key, content: hash64(canon), parent: from, via: tr, storeCanon: canon, aux: aux}
	if _, ok := x.contentSnap[s.content]; !ok {
		x.contentSnap[s.content] = s.snap
	}
	if from != nil {
		s.depth = from.depth + 1
	}
	x.visited[key] = s
	x.States++
	if s.depth > x.MaxDepth {
		x.MaxDepth = s.depth
	}
	if s.Idle() {
		x.IdleStates++
	}
	return s, true
}

// enq adds tokens to the queues of the scenario's queue model (the any-time model has no queues).
func (x *Explorer) enq(queues map[string][]string, tokens []Token) map[string][]string {
	if x.Sc.Mode == QAny {
		return map[string][]string{}
	}
	return enqueue(x.Sc.Mode, queues, tokens)
}

// Prepare builds the world and the initial state.
func (x *Explorer) Prepare() {
	sc := x.Sc
	x.visited = map[uint64]*E1State{}
	x.warned = map[string]bool{}
	x.terminals = hashSet{}
	x.contentSnap = map[uint64]*WorldSnap{}
	x.contentEdges = map[uint64]map[uint64]struct{}{}
	x.out = map[uint64][]absEdge{}
	if x.W == nil {
		x.W = NewWorld(sc.Cfg)
	}
	w := x.W
	if sc.Init != nil {
		sc.Init(w)
	}
	q := append(w.TakeTokens(), w.Settle()...)
	_, q = w.Drain(q, drainLimit, nil)
	for _, p := range sc.Prefix {
		call := p(w)
		q = append(q, w.Settle()...)
		_, q = w.Drain(q, drainLimit, nil)
		if !call.Done {
			call.Cancel()
			w.Settle()
		}
	}
	if len(q) != 0 {
		panic("scenario " + sc.Name + ": world does not go idle before exploration")
	}
	x.init, _ = x.newState(nil, Trans{}, map[string][]string{}, Env{}, "")
}

// Run explores breadth-first until the graph is exhausted, the state cap is hit or the deadline passes.
func (x *Explorer) Run() {
	if x.init == nil {
		x.Prepare()
	}
	w := x.W
	sc := x.Sc
	if x.Hooks.OnState != nil {
		x.Hooks.OnState(x, x.init)
	}
	frontier := []*E1State{x.init}
	for len(frontier) > 0 {
		var next []*E1State
		for _, s := range frontier {
			if x.RC.Expired() || (sc.MaxStates > 0 && x.States >= sc.MaxStates) {
				x.Capped = true
				return
			}
			outCount := 0
			add := func(tr Trans, res *StepResult, queues map[string][]string, env Env) {
				outCount++
				aux := s.aux
				if x.Hooks.Aux != nil {
					aux = x.Hooks.Aux(x, s, tr, res)
				}
				to, isNew := x.newState(s, tr, queues, env, aux)
				if isNew && env.Held != "" {
					if tr.Kind == "hold" {
						to.heldSnap = s.snap
					} else {
						to.heldSnap = s.heldSnap
					}
				}
				x.Transitions++
				x.out[s.key] = append(x.out[s.key], absEdge{tr, to})
				if to.content != s.content {
					m := x.contentEdges[s.content]
					if m == nil {
						m = map[uint64]struct{}{}
						x.contentEdges[s.content] = m
					}
					m[to.content] = struct{}{}
				}
				if x.Hooks.OnTransition != nil {
					x.Hooks.OnTransition(x, s, tr, res, to)
				}
				if isNew {
					if x.Hooks.OnState != nil {
						x.Hooks.OnState(x, to)
					}
					next = append(next, to)
				}
			}
			// 0. split steps: while a call is held, its controller runs nothing else (one partition per controller),
			// every other transition counts against HoldDepth, and the held call may continue at any time
			heldCtrl, heldID := "", ""
			if s.env.Held != "" {
				hc, hid, hk := heldParts(s.env.Held)
				heldCtrl, heldID = hc, hid
				w.Restore(s.snap)
				res, reached := w.Release(hc, hid, hk, s.heldSnap, s.snap)
				if !reached {
					panic("split step: hold point not reached again: " + s.env.Held)
				}
				x.Splits++
				if strings.Contains(res.Err, "onflict") || res.Conflicts > 0 {
					x.conflicts++
				}
				env := s.env
				env.Held, env.HeldSteps = "", 0
				add(Trans{Kind: "release", Ctrl: hc, ID: hid, K: hk}, &res, x.enq(s.queues, res.Tokens), env)
				if s.env.HeldSteps >= sc.HoldDepth {
					if x.Hooks.OnExpanded != nil {
						x.Hooks.OnExpanded(x, s, outCount)
					}
					continue
				}
			}
			bump := func(env Env) Env {
				if env.Held != "" {
					env.HeldSteps++
				}
				return env
			}
			// 1. controller steps
			var stepChoices []Trans
			if sc.Mode == QAny {
				w.Restore(s.snap)
				for _, t := range w.allObjectIDs() {
					stepChoices = append(stepChoices, Trans{Kind: "step", Ctrl: t.Ctrl, ID: t.ID, Src: "any"})
				}
			} else {
				stepChoices = choices(sc.Mode, s.queues)
			}
			var effectful []Trans
			for _, tr := range stepChoices {
				if heldBlocks(w, heldCtrl, heldID, tr.Ctrl, tr.ID) {
					continue
				}
				w.Restore(s.snap)
				res := w.Step(tr.Ctrl, tr.ID)
				if strings.Contains(res.Err, "onflict") {
					x.conflicts++
				}
				if res.Effects > 0 && res.Panic == "" {
					effectful = append(effectful, tr)
				}
				if sc.Mode == QAny {
					x.Probes++
					if res.Effects == 0 && res.Panic == "" {
						continue
					}
					add(tr, &res, map[string][]string{}, bump(s.env))
				} else {
					queues := enqueue(sc.Mode, dequeue(s.queues, tr), res.Tokens)
					add(tr, &res, queues, bump(s.env))
				}
				// 1m. map iteration order is the program's, not the scheduler's: the same step again with one of its
				// map iterations (inside onos-config's own functions, >= 2 entries) started at another entry
				if sc.MapOrderDeviations && res.Panic == "" {
					w.Restore(s.snap)
					sites := withMapOrder(nil, func() { _ = w.Step(tr.Ctrl, tr.ID) })
					for i, site := range sites {
						if site.Len < 2 || i >= 24 {
							continue
						}
						maxOff := site.Len - 1
						if maxOff > 3 {
							maxOff = 3
						}
						for o := 1; o <= maxOff; o++ {
							offs := make([]uint8, i+1)
							offs[i] = uint8(o)
							mt := tr
							mt.Map = offs
							w.Restore(s.snap)
							mres := w.stepT(mt)
							x.MapDeviations++
							if mres.Panic != "" {
								continue
							}
							if sc.Mode == QAny {
								if mres.Effects == 0 {
									continue
								}
								add(mt, &mres, map[string][]string{}, bump(s.env))
							} else {
								add(mt, &mres, enqueue(sc.Mode, dequeue(s.queues, tr), mres.Tokens), bump(s.env))
							}
						}
					}
				}
				// 1a. split this step: hold it before its (k+1)-th possibly effectful call
				if s.env.Held == "" && s.env.Holds < sc.HoldBudget && res.Effects > 0 && res.Panic == "" {
					// k = 0 (parked before its first call, nothing read yet) is the same as not having started
					for k := 1; k < 40; k++ {
						w.Restore(s.snap)
						hres, reached := w.Hold(tr.Ctrl, tr.ID, k)
						if !reached {
							break
						}
						env := s.env
						env.Holds++
						env.Held = fmt.Sprintf("%s|%s|%d|%x", tr.Ctrl, tr.ID, k, s.content)
						env.HeldSteps = 0
						var queues map[string][]string
						if sc.Mode == QAny {
							queues = map[string][]string{}
						} else {
							queues = enqueue(sc.Mode, dequeue(s.queues, tr), hres.Tokens)
						}
						add(Trans{Kind: "hold", Ctrl: tr.Ctrl, ID: tr.ID, K: k, Src: tr.Src}, &hres, queues, env)
					}
				}
				// 4. crashes inside this step
				if s.env.Held == "" && s.env.Crashes < sc.CrashBudget && res.Effects > 0 && res.Panic == "" {
					for k := 0; k < res.Effects; k++ {
						w.Restore(s.snap)
						w.fuse.Arm(k)
						// (what the step did before it died – device requests, plugin documents – is part of the
						// transition: monitors and path memories see it)
						cres := w.Step(tr.Ctrl, tr.ID)
						tokens := w.Restart()
						env := s.env
						env.Crashes++
						add(Trans{Kind: "crash", Ctrl: tr.Ctrl, ID: tr.ID, K: k, Src: tr.Src}, &cres, x.enq(map[string][]string{}, tokens), env)
					}
				}
			}
			// 1b. interleavings: an effectful step held before its (k+1)-th store write while another one runs
			reqEnabled := false
			if s.env.NextReq < len(sc.Requests) {
				reqEnabled = true
				if r := sc.Requests[s.env.NextReq]; r.Enabled != nil {
					w.Restore(s.snap)
					reqEnabled = r.Enabled(w)
				}
			}
			if s.env.Inter < sc.InterleaveBudget && s.env.Held == "" {
				for _, a := range effectful {
					var others []Trans
					for _, b := range effectful {
						// calls of one controller are sequential (one partition); calls of different controllers overlap
						if b.Ctrl != a.Ctrl {
							others = append(others, Trans{Kind: "interleave", Ctrl: a.Ctrl, ID: a.ID, Src: a.Src, Ctrl2: b.Ctrl, ID2: b.ID})
						}
					}
					if reqEnabled {
						others = append(others, Trans{Kind: "interleave", Ctrl: a.Ctrl, ID: a.ID, Src: a.Src, Fault: sc.Requests[s.env.NextReq].Name})
					}
				kLoop:
					for k := 0; k < 8; k++ {
						for _, tr := range others {
							tr.K = k
							w.Restore(s.snap)
							res, reached := x.interleaved(tr)
							if !reached {
								break kLoop
							}
							x.Interleavings++
							if strings.Contains(res.Err, "onflict") || res.Conflicts > 0 {
								x.conflicts++
							}
							env := s.env
							env.Inter++
							if tr.Ctrl2 == "" {
								env.NextReq++
							}
							queues := map[string][]string{}
							if sc.Mode != QAny {
								q2 := dequeue(s.queues, Trans{Kind: "step", Ctrl: a.Ctrl, ID: a.ID, Src: a.Src})
								if tr.Ctrl2 != "" {
									q2 = dequeue(q2, Trans{Kind: "step", Ctrl: tr.Ctrl2, ID: tr.ID2, Src: a.Src})
								}
								queues = enqueue(sc.Mode, q2, res.Tokens)
							}
							add(tr, &res, queues, env)
						}
					}
				}
			}
			// 2. the next client request
			if reqEnabled {
				w.Restore(s.snap)
				r := sc.Requests[s.env.NextReq]
				var call *Call
				if r.Set != nil {
					call = w.GoSet(context.Background(), r.Set)
				} else {
					call = r.Call(w)
				}
				tokens := w.Settle()
				if call.Done && call.Err != nil && !x.warned[r.Name] {
					// vacuity guard: a scenario request that the handler refuses outright explores nothing
					x.warned[r.Name] = true
					fmt.Printf("SCENARIO-WARNING scenario %q: request %q is refused at once: %v\n", sc.Name, r.Name, call.Err)
					x.Rep.mu.Lock()
					x.Rep.Coverage["scenario_requests_refused_at_once"] = fmt.Sprintf("%s: %s: %v", sc.Name, r.Name, call.Err)
					x.Rep.mu.Unlock()
				}
				if !call.Done {
					call.Cancel()
					tokens = append(tokens, w.Settle()...)
				}
				env := bump(s.env)
				env.NextReq++
				add(Trans{Kind: "client", Fault: r.Name}, nil, x.enq(s.queues, tokens), env)
			}
			// 3. faults
			if s.env.Faults < sc.FaultBudget {
				for _, f := range sc.Faults {
					w.Restore(s.snap)
					if f.Enabled != nil && !f.Enabled(w, s.env) {
						continue
					}
					f.Apply(w)
					tokens := w.Settle()
					env := bump(s.env)
					env.Faults++
					if f.Flag != "" {
						env.Flags += f.Flag
					}
					add(Trans{Kind: "fault", Fault: f.Name}, nil, x.enq(s.queues, tokens), env)
				}
			}
			// a crash between steps (process restart with nothing in flight)
			if s.env.Held == "" && s.env.Crashes < sc.CrashBudget && !s.Idle() && sc.Mode != QAny {
				w.Restore(s.snap)
				w.fuse.Kill()
				tokens := w.Restart()
				env := s.env
				env.Crashes++
				add(Trans{Kind: "restart", Fault: "crash-between-steps"}, nil, x.enq(map[string][]string{}, tokens), env)
			}
			if x.Hooks.OnExpanded != nil {
				x.Hooks.OnExpanded(x, s, outCount)
			}
		}
		frontier = next
	}
}

// ReplayTrace re-executes a trace from the initial state on the explorer's world and returns the step results.
func (x *Explorer) ReplayTrace(tr []Trans, each func(i int, t Trans, res *StepResult)) {
	w := x.W
	w.Restore(x.init.snap)
	var heldBegin *WorldSnap
	for i, t := range tr {
		var res *StepResult
		switch t.Kind {
		case "step":
			r := w.stepT(t)
			res = &r
		case "hold":
			heldBegin = w.Snapshot()
			r, reached := w.Hold(t.Ctrl, t.ID, t.K)
			if !reached {
				panic("replay: hold point not reached: " + t.String())
			}
			res = &r
		case "release":
			r, reached := w.Release(t.Ctrl, t.ID, t.K, heldBegin, w.Snapshot())
			if !reached {
				panic("replay: hold point not reached again: " + t.String())
			}
			res = &r
		case "crash":
			w.fuse.Arm(t.K)
			_ = w.Step(t.Ctrl, t.ID)
			w.Restart()
		case "interleave":
			r, reached := x.interleaved(t)
			if !reached {
				panic("replay: interleaving point not reached: " + t.String())
			}
			res = &r
		case "restart":
			w.fuse.Kill()
			w.Restart()
		case "client":
			for _, r := range x.Sc.Requests {
				if r.Name == t.Fault {
					var call *Call
					if r.Set != nil {
						call = w.GoSet(context.Background(), r.Set)
					} else {
						call = r.Call(w)
					}
					w.Settle()
					if !call.Done {
						call.Cancel()
						w.Settle()
					}
				}
			}
		case "fault":
			for _, f := range x.Sc.Faults {
				if f.Name == t.Fault {
					f.Apply(w)
					w.Settle()
				}
			}
		}
		if each != nil {
			each(i, t, res)
		}
	}
}

// ---- common fault specs ----

func faultConnDown(t string) FaultSpec {
	return FaultSpec{Name: "conn-down:" + t,
		Enabled: func(w *World, env Env) bool { return w.conns.LiveConn(topoID(t)) != "" },
		Apply:   func(w *World) { w.conns.SetReachable(topoID(t), false) }}
}

func faultConnUp(t string) FaultSpec {
	return FaultSpec{Name: "conn-up:" + t,
		Enabled: func(w *World, env Env) bool { return w.conns.LiveConn(topoID(t)) == "" },
		Apply:   func(w *World) { w.conns.SetReachable(topoID(t), true) }}
}

func faultDeviceRestart(t string) FaultSpec {
	return FaultSpec{Name: "device-restart:" + t, Flag: "R" + t,
		Enabled: func(w *World, env Env) bool { return !strings.Contains(env.Flags, "R"+t) },
		Apply: func(w *World) {
			// a restarting device loses its state and its connection; it comes back reachable
			w.conns.SetReachable(topoID(t), false)
			w.devices[t].Restart()
			w.conns.SetReachable(topoID(t), true)
		}}
}

func faultDeviceAnswers(t string, code codes.Code, n int) FaultSpec {
	name := fmt.Sprintf("device-answers:%s:%s:x%d", t, code, n)
	return FaultSpec{Name: name, Flag: "S" + t,
		Enabled: func(w *World, env Env) bool { return !strings.Contains(env.Flags, "S"+t) },
		Apply: func(w *World) {
			d := w.devices[t]
			d.mu.Lock()
			for i := 0; i < n; i++ {
				d.script = append(d.script, code)
			}
			d.mu.Unlock()
		}}
}

// replayE1 re-executes the trace of a replay file on a fresh world and prints what every transition did.
func replayE1(rc *RunCtx, rep *Report, scs []*Scenario) {
	var name string
	var trace []Trans
	if err := loadReplay(rc.Replay, "scenario", &name); err != nil {
		rep.HarnessErr = err.Error()
		return
	}
	if err := loadReplay(rc.Replay, "trace", &trace); err != nil {
		rep.HarnessErr = err.Error()
		return
	}
	for _, sc := range scs {
		if sc.Name != name {
			continue
		}
		x := &Explorer{RC: rc, Rep: rep, Sc: sc}
		x.Prepare()
		fmt.Printf("REPLAY scenario %q, %d transitions\n", name, len(trace))
		x.ReplayTrace(trace, func(i int, t Trans, res *StepResult) {
			if res != nil {
				var toks []string
				for _, k := range res.Tokens {
					toks = append(toks, k.Ctrl+":"+k.ID)
				}
				fmt.Printf("%3d %-28s effects=%v err=%q tokens=%v dev=%v\n", i, t.String(), res.Writes, res.Err, toks, res.DevLog)
			} else {
				fmt.Printf("%3d %-28s\n", i, t.String())
			}
			if os.Getenv("VERIF_DEBUG") != "" {
				fmt.Println("      " + strings.ReplaceAll(strings.TrimSpace(x.W.StoreCanon()), "\n", "\n      "))
			}
		})
		fmt.Println(x.W.Canon())
		rep.Coverage["evaluations"] = 1
		return
	}
	rep.HarnessErr = "unknown scenario " + name
}

// interleaved executes an "interleave" transition on the current world: step (Ctrl, ID) is held before its
// (K+1)-th store write while the other step, or the named client request, runs to completion.
func (x *Explorer) interleaved(t Trans) (StepResult, bool) {
	w := x.W
	return w.StepInterleaved(t.Ctrl, t.ID, t.K, func() {
		if t.Ctrl2 != "" {
			w.reconcileOnce(t.Ctrl2, t.ID2)
			return
		}
		for _, r := range x.Sc.Requests {
			if r.Name == t.Fault {
				var call *Call
				if r.Set != nil {
					call = w.GoSet(context.Background(), r.Set)
				} else {
					call = r.Call(w)
				}
				if !call.Done {
					call.Cancel()
				}
			}
		}
	})
}

// RealizeExact replays a trace found in the work-set model under the exact queue discipline of the controller
// runtime (one FIFO per watcher, bags for re-queues, retries and the replay after a restart; queues rebuilt from the
// real watchers' tokens): every step of the trace must find its token in some queue, and the tokens standing in
// front of it in that FIFO are executed first and must have no effect. It is greedy (nearest to the front), not a
// search: "" means the trace is a real execution (the world is left in its final state); otherwise the reason.
func (x *Explorer) RealizeExact(tr []Trans, drain bool, after func(i int, t Trans, res *StepResult)) string {
	w := x.W
	w.Restore(x.init.snap)
	queues := map[string][]string{}
	nextReq := 0
	var heldBegin *WorldSnap
	pulled := map[int]bool{} // trace positions whose step was executed earlier because a FIFO forced it
	cur := 0
	forced := 0
	x.realized = nil
	take := func(ctrl, id string) string {
		item := ctrl + "|" + id
		bestQ, bestPos := "", -1
		keys := make([]string, 0, len(queues))
		for k := range queues {
			keys = append(keys, k)
		}
		sort.Strings(keys)
		for _, k := range keys {
			for i, it := range queues[k] {
				if it == item {
					pos := i
					if strings.HasPrefix(k, "rq:") {
						pos = 0
					}
					if bestPos < 0 || pos < bestPos {
						bestQ, bestPos = k, pos
					}
					break
				}
			}
		}
		if bestPos < 0 {
			return fmt.Sprintf("no token for %s(%s) is pending (queues %s)", ctrl, id, queuesCanon(queues))
		}
		for i := 0; i < bestPos; i++ {
			p := strings.SplitN(queues[bestQ][0], "|", 2)
			bt := Trans{Kind: "step", Ctrl: p[0], ID: p[1], Src: bestQ}
			res := w.Step(bt.Ctrl, bt.ID)
			x.realized = append(x.realized, bt)
			if res.Effects > 0 || res.Panic != "" {
				// the FIFO forces this effectful step first. If the trace takes the same step later, take it now
				// instead (the abstraction ignores FIFO order between them); the run stays a real exact-queue
				// execution, and the check at its end decides whether it still shows the violation.
				later := -1
				for j := cur + 1; j < len(tr); j++ {
					if tr[j].Kind == "step" && tr[j].Ctrl == bt.Ctrl && tr[j].ID == bt.ID && !pulled[j] {
						later = j
						break
					}
				}
				if res.Panic != "" || (later < 0 && forced >= 12) {
					return fmt.Sprintf("token %s in front of %s(%s) in %s is not a no-op: %v", bt.String(), ctrl, id, bestQ, res.Writes)
				}
				if later >= 0 {
					pulled[later] = true
				} else {
					// the trace never takes this step (the abstraction let it wait for ever, a FIFO does not): it is
					// simply executed; the run remains a real one and the oracle at its end decides
					forced++
				}
			}
			queues = enqueue(QExact, dequeue(queues, bt), res.Tokens)
		}
		queues = dequeue(queues, Trans{Ctrl: ctrl, ID: id, Src: bestQ})
		return ""
	}
	for i, t := range tr {
		var res *StepResult
		cur = i
		if pulled[i] {
			continue
		}
		switch t.Kind {
		case "step", "crash", "interleave":
			if why := take(t.Ctrl, t.ID); why != "" {
				return fmt.Sprintf("move %d %s: %s", i, t.String(), why)
			}
			if t.Kind == "interleave" && t.Ctrl2 != "" {
				if why := take(t.Ctrl2, t.ID2); why != "" {
					return fmt.Sprintf("move %d %s: %s", i, t.String(), why)
				}
			}
			switch t.Kind {
			case "crash":
				w.fuse.Arm(t.K)
				r := w.Step(t.Ctrl, t.ID)
				res = &r
				queues = enqueue(QExact, map[string][]string{}, w.Restart())
			case "interleave":
				r, reached := x.interleaved(t)
				if !reached {
					return fmt.Sprintf("move %d %s: the step makes fewer store writes in the exact run", i, t.String())
				}
				if t.Ctrl2 == "" {
					nextReq++
				}
				res = &r
				queues = enqueue(QExact, queues, r.Tokens)
			default:
				r := w.stepT(t)
				res = &r
				queues = enqueue(QExact, queues, r.Tokens)
			}
		case "hold":
			if why := take(t.Ctrl, t.ID); why != "" {
				return fmt.Sprintf("move %d %s: %s", i, t.String(), why)
			}
			heldBegin = w.Snapshot()
			r, reached := w.Hold(t.Ctrl, t.ID, t.K)
			if !reached {
				return fmt.Sprintf("move %d %s: the step makes fewer calls in the exact run", i, t.String())
			}
			res = &r
			queues = enqueue(QExact, queues, r.Tokens)
		case "release":
			r, reached := w.Release(t.Ctrl, t.ID, t.K, heldBegin, w.Snapshot())
			if !reached {
				return fmt.Sprintf("move %d %s: the hold point is not reached again", i, t.String())
			}
			res = &r
			queues = enqueue(QExact, queues, r.Tokens)
		case "restart":
			w.fuse.Kill()
			queues = enqueue(QExact, map[string][]string{}, w.Restart())
		case "client":
			if nextReq >= len(x.Sc.Requests) {
				return "no request left"
			}
			r := x.Sc.Requests[nextReq]
			nextReq++
			var call *Call
			if r.Set != nil {
				call = w.GoSet(context.Background(), r.Set)
			} else {
				call = r.Call(w)
			}
			toks := w.Settle()
			if !call.Done {
				call.Cancel()
				toks = append(toks, w.Settle()...)
			}
			queues = enqueue(QExact, queues, toks)
		case "fault":
			for _, f := range x.Sc.Faults {
				if f.Name == t.Fault {
					f.Apply(w)
					queues = enqueue(QExact, queues, w.Settle())
				}
			}
		}
		x.realized = append(x.realized, t)
		if after != nil {
			after(i, t, res)
		}
	}
	if drain {
		// run whatever is still pending, oldest first per queue, until nothing is left
		for guard := 0; guard < 5000; guard++ {
			av := exactAvail(queues)
			if len(av) == 0 {
				return ""
			}
			t := av[0]
			res := w.Step(t.Ctrl, t.ID)
			queues = enqueue(QExact, dequeue(queues, t), res.Tokens)
			if after != nil {
				after(len(tr)+guard, t, &res)
			}
		}
		return "the world does not go idle within 5000 steps"
	}
	return ""
}
