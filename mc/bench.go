package mc

import (
	"context"
	"fmt"
)

func checkBench(rc *RunCtx) *Report {
	rep := newReport("other")
	hw := NewHistWorld(WorldConfig{Targets: []string{"T1", "T2"}}, true)
	w := hw.W
	hw.ExecSet(context.Background(), c03Alphabet[0].build(), nil)
	hw.ExecSet(context.Background(), c03Alphabet[4].build(), nil)
	snap := w.Snapshot()
	N := 2000
	t0 := realNow()
	for i := 0; i < N; i++ {
		w.Restore(snap)
	}
	t1 := realNow()
	for i := 0; i < N; i++ {
		_ = w.Canon()
	}
	t2 := realNow()
	for i := 0; i < N; i++ {
		_ = w.Snapshot()
	}
	t3 := realNow()
	for i := 0; i < N; i++ {
		w.Step(cProp, "T1-1")
	}
	t4 := realNow()
	for i := 0; i < N; i++ {
		w.Step(cTx, "1")
	}
	t5 := realNow()
	fmt.Printf("BENCH restore=%v canon=%v snapshot=%v step(prop noop)=%v step(tx noop)=%v (per op)\n", t1.Sub(t0)/2000, t2.Sub(t1)/2000, t3.Sub(t2)/2000, t4.Sub(t3)/2000, t5.Sub(t4)/2000)
	rep.Coverage["explanation"] = "bench"
	return rep
}

func init() { registerBubble("bench", checkBench) }
