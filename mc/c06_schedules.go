package mc

import (
	"fmt"

	configapi "github.com/onosproject/onos-api/go/onos/config/v2"
)

// C06, schedule part (E1a + E1x): a change and the rollback of it, explored over every interleaving of the effectful
// controller steps, with the target connecting at any time, one crash at any effect boundary and one split step (a
// reconcile call parked before any of its calls while the other controllers move on). Oracle at every state in which
// nothing can act any more: if the rollback went through (its transaction is COMMITTED or APPLIED) the target's
// stored configuration, as the real Get returns it, is exactly what it was before the change – and so is the device
// once it is connected, mastered and reported synchronized; if the rollback was refused (FAILED) the change stays.

type c06Sched struct {
	sc             *Scenario
	before, change map[string]string // Get(T1) before the change / after the change
}

func c06SchedScenarios(thorough bool) []c06Sched {
	one := WorldConfig{Targets: []string{"T1"}}
	pre := setReq("T1.leafA=1+sub/leafC=c", upd("T1", "/cont/leafA", "1"), upd("T1", "/cont/sub/leafC", "c"))
	chg := setReq("T1.leafA=2+leafA2=z-del(sub/leafC)", upd("T1", "/cont/leafA", "2"), upd("T1", "/cont/leafA2", "z"), del("T1", "/cont/sub/leafC"))
	before := map[string]string{"/cont/leafA": `string:"1"`, "/cont/sub/leafC": `string:"c"`}
	change := map[string]string{"/cont/leafA": `string:"2"`, "/cont/leafA2": `string:"z"`}
	prefix := []func(w *World) *Call{func(w *World) *Call { return w.GoSet(bgCtx(), pre.Set) }}
	reqs := []SetReqOrCall{chg, rollbackReq("rollback(2)", 2)}
	out := []c06Sched{
		{sc: &Scenario{Name: "R1 change and its rollback on T1, offline; one crash", Cfg: one, Prefix: prefix, Requests: reqs, CrashBudget: 1}, before: before, change: change},
		{sc: &Scenario{Name: "R2 change and its rollback on T1, offline; one step split", Cfg: one, Prefix: prefix, Requests: reqs, HoldBudget: 1, HoldDepth: 3}, before: before, change: change},
		{sc: &Scenario{Name: "R3 change and its rollback on T1, connected; one step split", Cfg: one, Init: connectAll("T1"), Prefix: prefix, Requests: reqs,
			HoldBudget: 1, HoldDepth: 3}, before: before, change: change},
		{sc: &Scenario{Name: "R5 change and its rollback on T1, connected; one crash", Cfg: one, Init: connectAll("T1"), Prefix: prefix, Requests: reqs, CrashBudget: 1}, before: before, change: change},
	}
	// a retried (duplicate) rollback request: the second one names a change that is no longer the latest and is refused;
	// the first one must still restore the configuration and the device
	out = append(out, c06Sched{sc: &Scenario{Name: "R6 change applied (before the exploration starts), then its rollback requested twice, connected", Cfg: one, Init: connectAll("T1"),
		Prefix:   append(append([]func(w *World) *Call{}, prefix...), func(w *World) *Call { return w.GoSet(bgCtx(), chg.Set) }),
		Requests: []SetReqOrCall{rollbackReq("rollback(2)", 2), rollbackReq("rollback(2) again", 2)}}, before: before, change: change})
	if thorough {
		out = append(out,
			c06Sched{sc: &Scenario{Name: "R1c change and its rollback on T1 (offline; connects at any time); one crash", Cfg: one, Prefix: prefix, Requests: reqs,
				Faults: []FaultSpec{faultConnUp("T1")}, FaultBudget: 1, CrashBudget: 1}, before: before, change: change},
			c06Sched{sc: &Scenario{Name: "R2c change and its rollback on T1 (offline; connects at any time); one step split", Cfg: one, Prefix: prefix, Requests: reqs,
				Faults: []FaultSpec{faultConnUp("T1")}, FaultBudget: 1, HoldBudget: 1, HoldDepth: 3}, before: before, change: change},
			c06Sched{sc: &Scenario{Name: "R4 change and its rollback on T1, connected; the device restarts; one crash and one step split", Cfg: one, Init: connectAll("T1"), Prefix: prefix, Requests: reqs,
				Faults: []FaultSpec{faultDeviceRestart("T1")}, FaultBudget: 1, CrashBudget: 1, HoldBudget: 1, HoldDepth: 4, MaxStates: 300000}, before: before, change: change})
	}
	return out
}

func sameLeaves(a, b map[string]string) bool {
	if len(a) != len(b) {
		return false
	}
	for k, v := range a {
		if b[k] != v {
			return false
		}
	}
	return true
}

// c06Terminal judges a state in which nothing can act any more.
func c06Terminal(w *World, cs c06Sched) (string, string) {
	v := w.View()
	chg, rb := v.Tx(2), v.Tx(3)
	if chg == nil || rb == nil {
		return "", ""
	}
	got, err := w.GetProto(GetQuery{Target: "T1"})
	if err != nil {
		got = map[string]string{}
	}
	var want map[string]string
	switch {
	case rb.Status.State == configapi.TransactionStatus_COMMITTED || rb.Status.State == configapi.TransactionStatus_APPLIED:
		want = cs.before
	case rb.Status.State == configapi.TransactionStatus_FAILED && rb.Status.Phases.Commit == nil &&
		(chg.Status.State == configapi.TransactionStatus_COMMITTED || chg.Status.State == configapi.TransactionStatus_APPLIED):
		want = cs.change
	default:
		return "", "" // stranded or half-failed outcomes are C09's and C11's business
	}
	what := fmt.Sprintf("change %s, rollback %s (failure %s)", chg.Status.State, rb.Status.State, failText(rb.Status.Failure))
	if rb.Status.State == configapi.TransactionStatus_FAILED {
		// the request named the most recent change of T1 (the only later entry of the log is the rollback itself):
		// it must be carried out, not refused
		return "rollback-of-the-latest-change-refused/schedule", fmt.Sprintf("nothing can act any more, %s: the rollback of the most recent change of T1 was refused; Get returns %s", what, refCfg(got))
	}
	if !sameLeaves(got, want) {
		cl := "rollback-does-not-restore-the-stored-configuration"
		if rb.Status.State == configapi.TransactionStatus_FAILED {
			cl = "refused-rollback-altered-state"
		}
		return cl + "/schedule", fmt.Sprintf("nothing can act any more, %s: Get returns %s, expected %s", what, refCfg(got), refCfg(want))
	}
	cfg := v.CfgOf("T1")
	conn := string(w.conns.LiveConn(topoID("T1")))
	if cfg != nil && conn != "" && cfg.Status.Mastership.Master == conn && cfg.Status.State == configapi.ConfigurationStatus_SYNCHRONIZED &&
		rb.Status.State == configapi.TransactionStatus_APPLIED {
		if dev := w.devices["T1"].Content(); !sameLeaves(dev, want) {
			return "rollback-does-not-restore-the-device/schedule", fmt.Sprintf("nothing can act any more, %s, T1 connected and synchronized: the device holds %s, expected %s", what, refCfg(dev), refCfg(want))
		}
	}
	return "", ""
}

func c06Schedules(rc *RunCtx, rep *Report) {
	css := c06SchedScenarios(rc.Thorough())
	var scs []*Scenario
	byName := map[string]c06Sched{}
	for _, cs := range css {
		scs = append(scs, cs.sc)
		byName[cs.sc.Name] = cs
	}
	runMonitorCheck(rc, rep, scs, nil, nil, nil, func(sc *Scenario, x *Explorer, s *E1State, cands *candidates) {
		if s.env.NextReq < len(sc.Requests) {
			return
		}
		cs := byName[sc.Name]
		x.W.Restore(s.snap)
		if cl, text := c06Terminal(x.W, cs); cl != "" {
			cands.consider(x, rep, sc, s, cl, fmt.Sprintf("scenario %q: %s", sc.Name, text), func(w *World) (bool, string) {
				c2, t2 := c06Terminal(w, cs)
				return c2 == cl, t2
			})
		}
	})
}
