package mc

import (
	"context"
	"fmt"
	"os"
	"sort"
	"strings"
	"sync"
	"testing/synctest"

	"github.com/onosproject/onos-api/go/onos/config/admin"
	configapi "github.com/onosproject/onos-api/go/onos/config/v2"
	"github.com/onosproject/onos-config/pkg/utils"
	"github.com/openconfig/gnmi/proto/gnmi"
	"google.golang.org/grpc/codes"
	"google.golang.org/grpc/status"
)

// C08 – every Set and rollback request is answered, and the answer is truthful.
//
// The handler does three things that other parties can get in between: (1) create the transaction, (2) register a
// listener for its events, (3) read the record for the replay. Three gates in simatomix hold the handler after (1),
// before (3) and after (3) (before the read returns to it); the other party's progress is then placed – none, some or
// all of it – into the four windows: k1 progress units after create, k2 before the replay read, k3 between the read and
// its return, the rest afterwards. Every (k1,k2,k3) is run. The "progress units" are
//   part A: the status updates of a scripted controller written through the real transaction store
//           (success and a failure of every class at every stage; sync and async; Set and rollback);
//   part B: the effectful reconcile steps of the real controllers (default order) for requests that succeed, are
//           rejected by the model, are refused by the device with each gRPC code, name an unreachable target, and
//           rollbacks.
// After every run one more Set (scripted to COMMITTED) must be answered: a request must not leave the store unable to
// serve the next one.

type c08Gate struct {
	mu     sync.Mutex
	w      *World
	armed  map[string]chan struct{} // point -> channel the next caller arriving there waits on
	held   map[string]chan struct{} // point -> channel a caller is waiting on
	bypass int
}

func (g *c08Gate) hook(point, name, key string) {
	g.mu.Lock()
	ch := g.armed[point]
	if g.bypass > 0 || ch == nil || !strings.Contains(name, "transactions") {
		g.mu.Unlock()
		return
	}
	delete(g.armed, point)
	g.held[point] = ch
	g.mu.Unlock()
	<-ch
}

func (g *c08Gate) arm(point string) {
	g.mu.Lock()
	if g.armed == nil {
		g.armed, g.held = map[string]chan struct{}{}, map[string]chan struct{}{}
	}
	g.armed[point] = make(chan struct{})
	delete(g.held, point)
	g.mu.Unlock()
}

// release lets the caller held at point go on (and disarms the gate if nobody arrived); it reports whether somebody was held.
func (g *c08Gate) release(point string) bool {
	g.mu.Lock()
	defer g.mu.Unlock()
	delete(g.armed, point)
	if ch := g.held[point]; ch != nil {
		close(ch)
		delete(g.held, point)
		return true
	}
	return false
}

func (g *c08Gate) pass(f func()) {
	g.mu.Lock()
	g.bypass++
	g.mu.Unlock()
	defer func() {
		g.mu.Lock()
		g.bypass--
		g.mu.Unlock()
	}()
	f()
}

// the gRPC code the handlers must answer with for a recorded failure class (onos-lib-go errors.Status)
var c08CodeOf = map[configapi.Failure_Type]codes.Code{
	configapi.Failure_UNKNOWN: codes.Unknown, configapi.Failure_CANCELED: codes.Canceled, configapi.Failure_NOT_FOUND: codes.NotFound,
	configapi.Failure_ALREADY_EXISTS: codes.AlreadyExists, configapi.Failure_UNAUTHORIZED: codes.Unauthenticated,
	configapi.Failure_FORBIDDEN: codes.PermissionDenied, configapi.Failure_CONFLICT: codes.FailedPrecondition, configapi.Failure_INVALID: codes.InvalidArgument,
	configapi.Failure_UNAVAILABLE: codes.Unavailable, configapi.Failure_NOT_SUPPORTED: codes.Unimplemented, configapi.Failure_TIMEOUT: codes.DeadlineExceeded,
	configapi.Failure_INTERNAL: codes.Internal,
}

var c08FailureTypes = []configapi.Failure_Type{configapi.Failure_UNKNOWN, configapi.Failure_CANCELED, configapi.Failure_NOT_FOUND,
	configapi.Failure_ALREADY_EXISTS, configapi.Failure_UNAUTHORIZED, configapi.Failure_FORBIDDEN, configapi.Failure_CONFLICT, configapi.Failure_INVALID,
	configapi.Failure_UNAVAILABLE, configapi.Failure_NOT_SUPPORTED, configapi.Failure_TIMEOUT, configapi.Failure_INTERNAL}

// c08Request is a northbound request whose answer is examined.
type c08Request struct {
	Name     string
	Ops      []ReqOp // Set
	Sync     bool
	Rollback uint64 // > 0: a rollback of this index instead of a Set
}

func (r c08Request) start(w *World) *Call {
	if r.Rollback > 0 {
		return w.GoCall(context.Background(), func(ctx context.Context) (interface{}, error) {
			return w.admin.RollbackTransaction(ctx, &admin.RollbackRequest{Index: configapi.Index(r.Rollback)})
		})
	}
	req := SetReq{Ops: r.Ops}.build()
	if r.Sync {
		req.Extension = append(req.Extension, syncExt())
	}
	return w.GoSet(context.Background(), req)
}

func (r c08Request) sync() bool { return r.Sync || r.Rollback > 0 }

// c08Answer checks one answered or unanswered call against the final record of its transaction.
// reachedCommit tells whether the record ever was COMMITTED (known to the driver in part A, read from the phases in B).
func c08Answer(r c08Request, call *Call, tx *configapi.Transaction, everCommitted bool) (class, what string) {
	if tx == nil {
		if call.Done && call.Err != nil {
			return "", ""
		}
		return "no-transaction", "the request was not refused but no transaction was stored"
	}
	st := tx.Status.State
	finished := st == configapi.TransactionStatus_APPLIED || st == configapi.TransactionStatus_FAILED ||
		(!r.sync() && st == configapi.TransactionStatus_COMMITTED)
	desc := fmt.Sprintf("final record: %s failure=%s", st, failText(tx.Status.Failure))
	if !call.Done {
		if finished {
			mode := "asynchronous"
			if r.sync() {
				mode = "synchronous"
			}
			return "waits-for-finished-transaction/" + mode + "/" + st.String(), "the handler is still waiting although the transaction has finished; " + desc
		}
		return "", ""
	}
	if call.Err == nil {
		ok := false
		if r.sync() {
			ok = st == configapi.TransactionStatus_APPLIED
		} else {
			ok = st == configapi.TransactionStatus_COMMITTED || st == configapi.TransactionStatus_APPLIED || (st == configapi.TransactionStatus_FAILED && everCommitted)
		}
		if !ok {
			return "success-without-reaching-the-awaited-stage", "the handler answered with success; " + desc
		}
		if t := c08ResponseProblem(r, call.Resp, tx); t != "" {
			return "response-content", t
		}
		return "", ""
	}
	// an error
	if st != configapi.TransactionStatus_FAILED {
		return "error-for-transaction-that-did-not-fail", fmt.Sprintf("the handler answered %v; %s", call.Err, desc)
	}
	want := codes.Unknown
	if tx.Status.Failure != nil {
		want = c08CodeOf[tx.Status.Failure.Type]
	}
	if got := status.Code(call.Err); got != want {
		return "wrong-failure-class/" + failText(tx.Status.Failure), fmt.Sprintf("the handler answered code %s, the recorded failure class %s maps to %s", got, failText(tx.Status.Failure), want)
	}
	return "", ""
}

// c08ResponseProblem compares a success response with the request and the stored transaction.
func c08ResponseProblem(r c08Request, resp interface{}, tx *configapi.Transaction) string {
	if r.Rollback > 0 {
		rr, ok := resp.(*admin.RollbackResponse)
		if !ok || rr == nil {
			return fmt.Sprintf("rollback answered with %T", resp)
		}
		if rr.ID != tx.ID || rr.Index != tx.Index {
			return fmt.Sprintf("rollback response names transaction %s/%d, the rollback is stored as %s/%d", rr.ID, rr.Index, tx.ID, tx.Index)
		}
		return ""
	}
	sr, ok := resp.(*gnmi.SetResponse)
	if !ok || sr == nil {
		return fmt.Sprintf("Set answered with %T", resp)
	}
	var want, got []string
	// what the request changed: one entry per (target, path) it names; a path that is both deleted and written in one
	// request, or named twice, is one pair – marked as the stored change has it
	named := map[string]bool{}
	for _, o := range r.Ops {
		named[o.Target+" "+o.Path] = true
	}
	if chg := tx.GetChange(); chg != nil {
		for t, pvs := range chg.Values {
			for path, pv := range pvs.Values {
				op := "UPDATE"
				if pv.Deleted {
					op = "DELETE"
				}
				want = append(want, fmt.Sprintf("%s %s %s", t, path, op))
				if !named[string(t)+" "+path] {
					return fmt.Sprintf("the stored change holds %s %s, which the request does not name", t, path)
				}
				delete(named, string(t)+" "+path)
			}
		}
	}
	for pair := range named {
		return fmt.Sprintf("the request names %s, which the stored change does not hold", pair)
	}
	for _, u := range sr.Response {
		got = append(got, fmt.Sprintf("%s %s %s", u.GetPath().GetTarget(), utils.StrPath(u.GetPath()), u.Op))
	}
	sort.Strings(want)
	sort.Strings(got)
	if strings.Join(want, "; ") != strings.Join(got, "; ") {
		return fmt.Sprintf("response lists [%s], the request changed [%s]", strings.Join(got, "; "), strings.Join(want, "; "))
	}
	var info *configapi.TransactionInfo
	for _, e := range sr.Extension {
		if re := e.GetRegisteredExt(); re != nil && re.Id == configapi.TransactionInfoExtensionID {
			info = &configapi.TransactionInfo{}
			if err := info.Unmarshal(re.Msg); err != nil {
				return "transaction info extension does not decode: " + err.Error()
			}
		}
	}
	if info == nil {
		return "response carries no transaction info extension"
	}
	if info.ID != tx.ID || info.Index != tx.Index {
		return fmt.Sprintf("response names transaction %s/%d, the change is stored as %s/%d", info.ID, info.Index, tx.ID, tx.Index)
	}
	return ""
}

// ---- part A: scripted controller ----

type c08ScriptStep struct {
	State   configapi.TransactionStatus_State
	Failure *configapi.Failure
}

type c08Script struct {
	Name  string
	Steps []c08ScriptStep
}

func c08Scripts() []c08Script {
	V, C, A, F := configapi.TransactionStatus_VALIDATED, configapi.TransactionStatus_COMMITTED, configapi.TransactionStatus_APPLIED, configapi.TransactionStatus_FAILED
	out := []c08Script{{"success", []c08ScriptStep{{V, nil}, {C, nil}, {A, nil}}}}
	fails := []*configapi.Failure{nil}
	for _, t := range c08FailureTypes {
		fails = append(fails, &configapi.Failure{Type: t, Description: "scripted " + t.String()})
	}
	for _, f := range fails {
		out = append(out,
			c08Script{"fails before validation with " + failText(f), []c08ScriptStep{{F, f}}},
			c08Script{"fails after validation with " + failText(f), []c08ScriptStep{{V, nil}, {F, f}}},
			c08Script{"fails after commit with " + failText(f), []c08ScriptStep{{V, nil}, {C, nil}, {F, f}}})
	}
	return out
}

func (w *World) c08LastTx() *configapi.Transaction {
	v := w.View()
	if len(v.Txs) == 0 {
		return nil
	}
	return v.Txs[len(v.Txs)-1]
}

func c08Requests() []c08Request {
	// (T1's leafA is both deleted and written, T2's leafA2 is deleted twice: each is one changed pair)
	ops := []ReqOp{upd("T1", "/cont/leafA", "x"), del("T1", "/cont/leafA"), del("T1", "/cont/leafA2"), upd("T2", "/cont/leafA", "y"), del("T2", "/cont/leafA2"), del("T2", "/cont/leafA2"), {Kind: "replace", Target: "T2", Path: "/cont/sub/leafC", Val: "r"}}
	return []c08Request{
		{Name: "asynchronous Set on T1+T2", Ops: ops},
		{Name: "synchronous Set on T1+T2", Ops: ops, Sync: true},
		{Name: "rollback of 1", Rollback: 1},
	}
}

func checkC08(rc *RunCtx) *Report {
	rep := newReport("model_checking")
	scripts := c08Scripts()
	reqs := c08Requests()
	bReqs := c08RealRequests(rc.Thorough())
	nums, _ := runSharded(rc, rep, defaultWorkers(), func(sh Shard, rep *Report) *ShardResult {
		out := newShardResult()
		outcomes := hashSet{}
		item := 0
		var hw *HistWorld
		var w *World
		var g *c08Gate
		var base *WorldSnap
		baseTxs := 0
		build := func() {
			hw = NewHistWorld(WorldConfig{Targets: []string{"T1", "T2", "T3"}}, false)
			w = hw.W
			g = &c08Gate{w: w}
			w.atomix.gate = g.hook
			w.stepWrap = g.pass
			connectAll("T1", "T2")(w)
			w.Drain(w.Settle(), drainLimit, nil)
			// one applied transaction in the past (so that rollbacks have something to name)
			hw.ExecSet(context.Background(), SetReq{Ops: []ReqOp{upd("T1", "/cont/leafA", "old"), upd("T1", "/cont/leafA2", "old2"), upd("T2", "/cont/leafA2", "old2")}}.build(), nil)
			base = w.Snapshot()
			baseTxs = len(w.View().Txs)
		}
		build()
		wedges := 0 // every wedged store costs a new world; give up on the shard after 20 (the violation is recorded)
		scripted := func(st configapi.TransactionStatus_State, f *configapi.Failure) {
			g.pass(func() {
				tx := w.c08LastTx()
				tx.Status.State, tx.Status.Failure = st, f
				if err := w.txs.UpdateStatus(context.Background(), tx); err != nil {
					panic(fmt.Sprintf("scripted controller: %v", err))
				}
			})
			synctest.Wait()
			w.ReapCalls()
		}
		// alive: after the examined request, one more asynchronous Set whose transaction a scripted controller
		// validates and commits must be answered (a wedged store answers nothing any more)
		alive := func() bool {
			w.TakeTokens()
			for _, p := range w.plugins {
				p.SetVerdict(nil)
			}
			call := c08Request{Ops: []ReqOp{upd("T2", "/cont/leafA", "probe")}}.start(w)
			scripted(configapi.TransactionStatus_VALIDATED, nil)
			scripted(configapi.TransactionStatus_COMMITTED, nil)
			ok := call.Done && call.Err == nil
			if !call.Done {
				call.Cancel()
				w.Settle()
			}
			w.TakeTokens()
			return ok
		}
		finish := func(call *Call) {
			if !call.Done {
				call.Cancel()
				w.Settle()
			}
			w.TakeTokens()
		}
		// ---- part A ----
		for _, r := range reqs {
			for _, sc := range scripts {
				n := len(sc.Steps)
				for k1 := 0; k1 <= n; k1++ {
					for k2 := 0; k1+k2 <= n; k2++ {
						for k3 := 0; k1+k2+k3 <= n; k3++ {
							item++
							if !sh.Mine(item) {
								continue
							}
							w.Restore(base)
							g.arm("appended")
							call := r.start(w)
							done := 0
							everCommitted := false
							advance := func(k int) {
								for i := 0; i < k; i++ {
									s := sc.Steps[done]
									done++
									scripted(s.State, s.Failure)
									if s.State == configapi.TransactionStatus_COMMITTED {
										everCommitted = true
									}
								}
							}
							advance(k1)
							g.arm("get")
							held1 := g.release("appended")
							synctest.Wait()
							advance(k2)
							g.arm("got")
							held2 := g.release("get")
							synctest.Wait()
							advance(k3)
							held2 = g.release("got") && held2
							synctest.Wait()
							advance(n - done)
							w.ReapCalls()
							synctest.Wait()
							out.Numbers["placements_scripted"]++
							out.Numbers["progress_units"] += int64(n)
							if k1 == 1 && k2 == 1 && k3 == 0 {
								rep.Sample(6, map[string]interface{}{"request": r.Name, "scripted_controller": sc.Name, "updates_after_create": k1, "updates_before_replay_read": k2, "updates_between_read_and_return": k3, "updates_afterwards": n - k1 - k2 - k3, "answered": call.Done, "code": status.Code(call.Err).String()})
							}
							if os.Getenv("VERIF_DEBUG") != "" {
								fmt.Printf("A %s / %s k1=%d k2=%d k3=%d held=%v,%v done=%v err=%v panic=%q\n", r.Name, sc.Name, k1, k2, k3, held1, held2, call.Done, call.Err, call.Panic)
							}
							if !held1 || !held2 {
								rep.HarnessErr = fmt.Sprintf("gate not reached (create %v, replay read %v) for %s / %s", held1, held2, r.Name, sc.Name)
							}
							var tx *configapi.Transaction
							g.pass(func() {
								if v := w.View(); len(v.Txs) > baseTxs {
									tx = v.Txs[len(v.Txs)-1]
								}
							})
							cl, what := c08Answer(r, call, tx, everCommitted)
							outcomes.Add(fmt.Sprintf("A %v %v %v", r.sync(), call.Done, status.Code(call.Err)))
							if cl != "" {
								rep.Violate(cl, fmt.Sprintf("%s; scripted controller %q; %d status updates between create and the handler's next step, %d before the replay read, %d between the read and its return, %d afterwards: %s",
									r.Name, sc.Name, k1, k2, k3, n-k1-k2-k3, what),
									map[string]interface{}{"kind": "c08-scripted", "request": r.Name, "script": sc.Name, "k1": k1, "k2": k2, "k3": k3})
							}
							finish(call)
							if !alive() {
								rep.Violate("later-request-never-answered", fmt.Sprintf("after %s (scripted controller %q; %d status updates between create and the handler's next step, %d before the replay read, %d between the read and its return, %d afterwards; answered: %v) a further Set whose transaction is validated and committed is never answered",
									r.Name, sc.Name, k1, k2, k3, n-k1-k2-k3, call.Done),
									map[string]interface{}{"kind": "c08-scripted", "request": r.Name, "script": sc.Name, "k1": k1, "k2": k2, "k3": k3})
								build()
							} else if cl != "" {
								build()
							}
						}
					}
				}
			}
		}
		// ---- part B ----
		for _, br := range bReqs {
			// number of reconcile steps of an undisturbed run
			total := -1
			for k1 := 0; total < 0 || k1 <= total; k1++ {
				for k2 := 0; total < 0 || k1+k2 <= total; k2++ {
					for k3 := 0; total < 0 || k1+k2+k3 <= total; k3++ {
						item++
						mine := sh.Mine(item)
						if !mine && total >= 0 {
							continue
						}
						w.Restore(base)
						if br.Init != nil {
							br.Init(w)
						}
						g.arm("appended")
						call := br.Req.start(w)
						q := w.Settle()
						steps := 0
						// run executes reconcile steps in the default order until k of them had an external effect
						// (steps without effect change nothing the handler could observe)
						run := func(k int) {
							for eff := 0; len(q) > 0 && eff < k && steps < drainLimit; {
								t := q[0]
								q = q[1:]
								r := w.Step(t.Ctrl, t.ID)
								if r.Effects > 0 {
									eff++
									steps++
								}
								q = append(q, r.Tokens...)
							}
						}
						run(k1)
						g.arm("get")
						held1 := g.release("appended")
						q = append(q, w.Settle()...)
						run(k2)
						g.arm("got")
						held2 := g.release("get")
						q = append(q, w.Settle()...)
						run(k3)
						held2 = g.release("got") && held2
						q = append(q, w.Settle()...)
						run(drainLimit)
						w.ReapCalls()
						if total < 0 {
							total = steps
							if !mine {
								finish(call)
								for _, p := range w.plugins {
									p.SetVerdict(nil)
								}
								w.devices["T1"].script = nil
								continue
							}
						}
						out.Numbers["placements_real"]++
						out.Numbers["progress_units"] += int64(steps)
						if k1 == 2 && k2 == 3 && k3 == 1 {
							rep.Sample(12, map[string]interface{}{"request": br.Req.Name, "controllers": "real", "effectful_steps_after_create": k1, "before_replay_read": k2, "between_read_and_return": k3, "total_effectful_steps": steps, "answered": call.Done, "code": status.Code(call.Err).String()})
						}
						if os.Getenv("VERIF_DEBUG") != "" {
							fmt.Printf("B %s k1=%d k2=%d k3=%d total=%d steps=%d held=%v,%v done=%v err=%v\n", br.Req.Name, k1, k2, k3, total, steps, held1, held2, call.Done, call.Err)
						}
						if (!held1 || !held2) && !(call.Done && call.Err != nil && status.Code(call.Err) != codes.Canceled && !held1) {
							rep.HarnessErr = fmt.Sprintf("gate not reached (create %v, replay read %v) for %s", held1, held2, br.Req.Name)
						}
						var tx *configapi.Transaction
						g.pass(func() {
							if v := w.View(); len(v.Txs) > baseTxs {
								tx = v.Txs[len(v.Txs)-1]
							}
						})
						ever := tx != nil && tx.Status.Phases.Commit != nil && tx.Status.Phases.Commit.State == configapi.TransactionCommitPhase_COMMITTED
						cl, what := c08Answer(br.Req, call, tx, ever)
						outcomes.Add(fmt.Sprintf("B %s %v %v", br.Req.Name, call.Done, status.Code(call.Err)))
						if cl == "" && br.Expect != nil {
							cl, what = br.Expect(call, tx)
						}
						if cl != "" {
							rep.Violate(cl, fmt.Sprintf("%s; real controllers, %d effectful reconcile steps between create and the handler's next step, %d before the replay read, %d between the read and its return, the rest afterwards: %s",
								br.Req.Name, k1, k2, k3, what),
								map[string]interface{}{"kind": "c08-real", "request": br.Req.Name, "k1": k1, "k2": k2, "k3": k3})
						}
						finish(call)
						w.devices["T1"].script = nil
						if !alive() {
							rep.Violate("later-request-never-answered", fmt.Sprintf("after %s (real controllers, %d effectful reconcile steps between create and listener registration, %d between registration and the replay read, the rest afterwards; answered: %v) a further Set whose transaction is validated and committed is never answered",
								br.Req.Name, k1, k2, call.Done),
								map[string]interface{}{"kind": "c08-real", "request": br.Req.Name, "k1": k1, "k2": k2})
							if wedges++; wedges > 20 {
								rep.Exhaustive = false
								return out
							}
							build()
						}
					}
				}
			}
		}
		out.Distinct["outcomes"] = outcomes.List()
		return out
	})
	rep.Coverage["schedules"] = nums["placements_scripted"] + nums["placements_real"]
	rep.Coverage["states"] = nums["placements_scripted"] + nums["placements_real"] // one complete execution per placement (stateless search)
	rep.Coverage["transitions"] = nums["progress_units"] + 3*(nums["placements_scripted"]+nums["placements_real"])
	rep.Coverage["traces_validated_against_impl"] = nums["placements_scripted"] + nums["placements_real"] // every schedule is executed on the real handler, store and controllers
	rep.Coverage["evaluations"] = nums["placements_scripted"] + nums["placements_real"]
	rep.Coverage["distinct_nontrivial"] = nums["distinct:outcomes"]
	rep.Coverage["placements_scripted_controller"] = nums["placements_scripted"]
	rep.Coverage["placements_real_controllers"] = nums["placements_real"]
	rep.Coverage["distinct_outcomes"] = nums["distinct:outcomes"]
	rep.Coverage["preemption_bound"] = 3
	rep.Coverage["rule"] = fmt.Sprintf("handler held after 'create transaction', before the replay read of its watch and after that read; every split (k1,k2,k3,rest) of the other party's progress over the four windows; part A: scripted controller writing status updates through the real store: %d scripts (success; FAILED with no failure and with each of the 12 classes, before validation / after validation / after commit) x {asynchronous Set, synchronous Set, rollback}; part B: real controllers in default order, %d requests (valid, model-rejected, device refusing with each of 16 codes, unreachable target, rollbacks of the latest / a missing / a non-latest change) x sync/async; oracle: answered whenever the transaction has finished, success only at the awaited stage, error code = class recorded, response lists exactly the request's target/path pairs with update/delete marks and the stored id and index", len(scripts), len(bReqs))
	rep.Assumptions = append(rep.Assumptions, "one Reconcile call / one status update is atomic with respect to the handler (the handler's three store operations are the pre-emption points)",
		"event delivery inside the store (dispatcher goroutine) runs to quiescence between progress units")
	return rep
}

// ---- part B requests ----

type c08Real struct {
	Req    c08Request
	Init   func(w *World)
	Expect func(call *Call, tx *configapi.Transaction) (string, string)
}

func c08RealRequests(thorough bool) []c08Real {
	var out []c08Real
	one := []ReqOp{upd("T1", "/cont/leafA", "x"), del("T1", "/cont/leafA2")}
	two := []ReqOp{upd("T1", "/cont/leafA", "x"), upd("T2", "/cont/leafA", "x"), del("T1", "/cont/leafA2"), del("T2", "/cont/leafA2")}
	mustSucceed := func(call *Call, tx *configapi.Transaction) (string, string) {
		if !call.Done || call.Err != nil {
			return "valid-request-not-acknowledged", fmt.Sprintf("done=%v err=%v", call.Done, call.Err)
		}
		return "", ""
	}
	mustFail := func(code codes.Code) func(call *Call, tx *configapi.Transaction) (string, string) {
		return func(call *Call, tx *configapi.Transaction) (string, string) {
			if !call.Done || status.Code(call.Err) != code {
				return "failing-request-not-answered-with-its-class", fmt.Sprintf("done=%v err=%v, expected code %s", call.Done, call.Err, code)
			}
			return "", ""
		}
	}
	for _, sync := range []bool{false, true} {
		mode := "asynchronous"
		if sync {
			mode = "synchronous"
		}
		out = append(out,
			c08Real{Req: c08Request{Name: mode + " Set on T1", Ops: one, Sync: sync}, Expect: mustSucceed},
			c08Real{Req: c08Request{Name: mode + " Set of the same paths on T1 and T2", Ops: two, Sync: sync}, Expect: mustSucceed},
			c08Real{Req: c08Request{Name: mode + " Set on T1 rejected by the model", Ops: one, Sync: sync},
				Init: func(w *World) { w.plugins["T1"].SetVerdict(rejectAll) }, Expect: mustFail(codes.InvalidArgument)},
			c08Real{Req: c08Request{Name: mode + " Set on T1+T2, T2's model rejects", Ops: two, Sync: sync},
				Init: func(w *World) { w.plugins["T2"].SetVerdict(rejectAll) }, Expect: mustFail(codes.InvalidArgument)},
		)
		if !sync {
			out = append(out, c08Real{Req: c08Request{Name: "asynchronous Set on unreachable T3", Ops: []ReqOp{upd("T3", "/cont/leafA", "x")}}, Expect: mustSucceed})
		} else {
			out = append(out, c08Real{Req: c08Request{Name: "synchronous Set on unreachable T3", Ops: []ReqOp{upd("T3", "/cont/leafA", "x")}, Sync: true}})
		}
		for _, c := range c11AllCodes {
			c := c
			if !thorough && !sync && c != codes.InvalidArgument && c != codes.Unavailable {
				continue
			}
			out = append(out, c08Real{Req: c08Request{Name: fmt.Sprintf("%s Set on T1, device answers the apply with %s", mode, c), Ops: one, Sync: sync},
				Init: func(w *World) { w.devices["T1"].script = []codes.Code{c} }})
		}
	}
	out = append(out,
		c08Real{Req: c08Request{Name: "rollback of the latest change (1)", Rollback: 1}, Expect: mustSucceed},
		c08Real{Req: c08Request{Name: "rollback of a missing index (7)", Rollback: 7}, Expect: mustFail(codes.NotFound)},
		c08Real{Req: c08Request{Name: "rollback of 1 after a model-rejected Set", Rollback: 1}, Init: func(w *World) {}},
	)
	return out
}

func init() { registerBubble("C08", checkC08) }
