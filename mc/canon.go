package mc

import (
	"context"
	"fmt"
	"sort"
	"strings"
	"time"

	configapi "github.com/onosproject/onos-api/go/onos/config/v2"
)

// StoreView is a decoded, scrubbed copy of everything in the three v2 stores.
type StoreView struct {
	Txs   []*configapi.Transaction // by index
	Props map[configapi.ProposalID]*configapi.Proposal
	Cfgs  map[configapi.ConfigurationID]*configapi.Configuration
}

// View reads all records through the real stores (works on simatomix and on the real atomix backend alike).
func (w *World) View() *StoreView {
	ctx, cancel := context.WithTimeout(context.Background(), time.Minute)
	defer cancel()
	v := &StoreView{Props: map[configapi.ProposalID]*configapi.Proposal{}, Cfgs: map[configapi.ConfigurationID]*configapi.Configuration{}}
	txs, err := w.txs.List(ctx)
	if err != nil {
		panic(fmt.Sprintf("view: list transactions: %v", err))
	}
	sort.Slice(txs, func(i, j int) bool { return txs[i].Index < txs[j].Index })
	v.Txs = txs
	props, err := w.props.List(ctx)
	if err != nil {
		panic(fmt.Sprintf("view: list proposals: %v", err))
	}
	for _, p := range props {
		v.Props[p.ID] = p
	}
	cfgs, err := w.cfgs.List(ctx)
	if err != nil {
		panic(fmt.Sprintf("view: list configurations: %v", err))
	}
	for _, c := range cfgs {
		v.Cfgs[c.ID] = c
	}
	return v
}

func (v *StoreView) Tx(index configapi.Index) *configapi.Transaction {
	for _, t := range v.Txs {
		if t.Index == index {
			return t
		}
	}
	return nil
}

// CfgOf returns the configuration of a target (there is one per target in all scenarios).
func (v *StoreView) CfgOf(target string) *configapi.Configuration {
	for _, c := range v.Cfgs {
		if string(c.TargetID) == target {
			return c
		}
	}
	return nil
}

func pvText(pv *configapi.PathValue) string {
	if pv == nil {
		return "nil"
	}
	if pv.Deleted {
		return fmt.Sprintf("D@%d", pv.Index)
	}
	return fmt.Sprintf("%s@%d", tvText(&pv.Value), pv.Index)
}

func tvText(tv *configapi.TypedValue) string {
	return fmt.Sprintf("%s:%x%v", tv.Type, tv.Bytes, tv.TypeOpts)
}

func pvMapText(m map[string]*configapi.PathValue) string {
	keys := make([]string, 0, len(m))
	for k := range m {
		keys = append(keys, k)
	}
	sort.Strings(keys)
	var b strings.Builder
	b.WriteString("{")
	for _, k := range keys {
		pv := m[k]
		extra := ""
		if pv != nil && pv.Path != k {
			extra = "(path=" + pv.Path + ")"
		}
		fmt.Fprintf(&b, "%s%s=%s;", k, extra, pvText(pv))
	}
	b.WriteString("}")
	return b.String()
}

func failText(f *configapi.Failure) string {
	if f == nil {
		return "-"
	}
	return f.Type.String()
}

func txPhasesText(p configapi.TransactionPhases) string {
	var parts []string
	if p.Initialize != nil {
		parts = append(parts, "I:"+p.Initialize.State.String()+"/"+failText(p.Initialize.Failure))
	}
	if p.Validate != nil {
		parts = append(parts, "V:"+p.Validate.State.String()+"/"+failText(p.Validate.Failure))
	}
	if p.Commit != nil {
		parts = append(parts, "C:"+p.Commit.State.String())
	}
	if p.Apply != nil {
		parts = append(parts, "A:"+p.Apply.State.String()+"/"+failText(p.Apply.Failure))
	}
	if p.Abort != nil {
		parts = append(parts, "X:"+p.Abort.State.String())
	}
	return strings.Join(parts, ",")
}

func propPhasesText(p configapi.ProposalPhases) string {
	var parts []string
	if p.Initialize != nil {
		parts = append(parts, "I:"+p.Initialize.State.String())
	}
	if p.Validate != nil {
		parts = append(parts, "V:"+p.Validate.State.String()+"/"+failText(p.Validate.Failure))
	}
	if p.Commit != nil {
		parts = append(parts, "C:"+p.Commit.State.String())
	}
	if p.Apply != nil {
		parts = append(parts, fmt.Sprintf("A:%s/%s/t%d", p.Apply.State, failText(p.Apply.Failure), p.Apply.Term))
	}
	if p.Abort != nil {
		parts = append(parts, "X:"+p.Abort.State.String())
	}
	return strings.Join(parts, ",")
}

func txText(t *configapi.Transaction) string {
	var b strings.Builder
	fmt.Fprintf(&b, "tx%d rev%d %s/%s ", t.Index, t.Revision, t.Synchronicity, t.Isolation)
	switch d := t.Details.(type) {
	case *configapi.Transaction_Change:
		targets := make([]string, 0, len(d.Change.Values))
		for k := range d.Change.Values {
			targets = append(targets, string(k))
		}
		sort.Strings(targets)
		b.WriteString("change[")
		for _, k := range targets {
			vals := d.Change.Values[configapi.TargetID(k)]
			if vals == nil {
				fmt.Fprintf(&b, "%s:nil ", k)
			} else {
				fmt.Fprintf(&b, "%s:%s ", k, pvMapText(vals.Values))
			}
		}
		b.WriteString("]")
	case *configapi.Transaction_Rollback:
		fmt.Fprintf(&b, "rollback[%d]", d.Rollback.RollbackIndex)
	}
	props := make([]string, 0, len(t.Status.Proposals))
	for _, p := range t.Status.Proposals {
		props = append(props, string(p))
	}
	listed := "nil"
	if t.Status.Proposals != nil {
		sort.Strings(props)
		listed = strings.Join(props, ",")
	}
	fmt.Fprintf(&b, " state=%s fail=%s phases=%s proposals=[%s]", t.Status.State, failText(t.Status.Failure), txPhasesText(t.Status.Phases), listed)
	return b.String()
}

func propText(p *configapi.Proposal) string {
	var b strings.Builder
	fmt.Fprintf(&b, "prop %s rev%d tgt=%s tx=%d ttv=%s/%s ", p.ID, p.Revision, p.TargetID, p.TransactionIndex, p.TargetType, p.TargetVersion)
	switch d := p.Details.(type) {
	case *configapi.Proposal_Change:
		b.WriteString("change" + pvMapText(d.Change.Values))
	case *configapi.Proposal_Rollback:
		fmt.Fprintf(&b, "rollback[%d]", d.Rollback.RollbackIndex)
	}
	fmt.Fprintf(&b, " prev=%d next=%d rbi=%d rbv=%s phases=%s", p.Status.PrevIndex, p.Status.NextIndex, p.Status.RollbackIndex, pvMapText(p.Status.RollbackValues), propPhasesText(p.Status.Phases))
	return b.String()
}

func cfgText(c *configapi.Configuration) string {
	s := c.Status
	return fmt.Sprintf("cfg %s rev%d tgt=%s index=%d state=%s master=%s term=%d proposed=%d committed=%d applied=%d appliedMaster=%s appliedTerm=%d values=%s appliedValues=%s",
		c.ID, c.Revision, c.TargetID, c.Index, s.State, s.Mastership.Master, s.Mastership.Term, s.Proposed.Index, s.Committed.Index, s.Applied.Index,
		s.Applied.Mastership.Master, s.Applied.Mastership.Term, pvMapText(c.Values), pvMapText(s.Applied.Values))
}

// Canon renders the view canonically: no timestamps, no entry versions, no transaction uuids.
func (v *StoreView) Canon() string {
	var lines []string
	for _, t := range v.Txs {
		lines = append(lines, txText(t))
	}
	pids := make([]string, 0, len(v.Props))
	for id := range v.Props {
		pids = append(pids, string(id))
	}
	sort.Strings(pids)
	for _, id := range pids {
		lines = append(lines, propText(v.Props[configapi.ProposalID(id)]))
	}
	cids := make([]string, 0, len(v.Cfgs))
	for id := range v.Cfgs {
		cids = append(cids, string(id))
	}
	sort.Strings(cids)
	for _, id := range cids {
		lines = append(lines, cfgText(v.Cfgs[configapi.ConfigurationID(id)]))
	}
	return strings.Join(lines, "\n")
}

// fastView decodes the records straight from simatomix (no RPC). It mirrors what the stores' Get/List do:
// transactions take index from the entry, configurations get their committed and applied values from the
// path-value primitive(s) "configurations-<id>". It is cross-checked against View() regularly.
func (w *World) fastView() *StoreView {
	if fastDisabled {
		return w.View()
	}
	maps, imaps := w.atomix.Dump()
	v := &StoreView{Props: map[configapi.ProposalID]*configapi.Proposal{}, Cfgs: map[configapi.ConfigurationID]*configapi.Configuration{}}
	for _, e := range imaps["transactions"] {
		t := &configapi.Transaction{}
		if err := t.Unmarshal(e.value); err != nil {
			panic(err)
		}
		t.Index = configapi.Index(e.index)
		v.Txs = append(v.Txs, t)
	}
	for _, b := range maps["proposals"] {
		p := &configapi.Proposal{}
		if err := p.Unmarshal(b); err != nil {
			panic(err)
		}
		v.Props[p.ID] = p
	}
	for _, b := range maps["configurations"] {
		c := &configapi.Configuration{}
		if err := c.Unmarshal(b); err != nil {
			panic(err)
		}
		for path, pb := range maps["configurations-"+string(c.ID)] {
			pv := &configapi.PathValue{}
			if err := pv.Unmarshal(pb); err != nil {
				panic(err)
			}
			if c.Values == nil {
				c.Values = map[string]*configapi.PathValue{}
			}
			c.Values[path] = pv
		}
		appliedName := "configurations-" + string(c.ID) + "-applied"
		if appliedSharesCommitted {
			appliedName = "configurations-" + string(c.ID)
		}
		for path, pb := range maps[appliedName] {
			pv := &configapi.PathValue{}
			if err := pv.Unmarshal(pb); err != nil {
				panic(err)
			}
			if c.Status.Applied.Values == nil {
				c.Status.Applied.Values = map[string]*configapi.PathValue{}
			}
			c.Status.Applied.Values[path] = pv
		}
		v.Cfgs[c.ID] = c
	}
	return v
}

var canonCalls int

// appliedSharesCommitted: how the store under test names the primitive of the applied values (learned by comparing
// with the stores' own view); fastDisabled: the fast path could not be made to agree and is off.
var appliedSharesCommitted, fastDisabled bool

// StoreCanon is the canonical text of the store content of the world.
func (w *World) StoreCanon() string {
	if w.cfg.V3 {
		return w.View3().Canon()
	}
	if w.atomix == nil || fastDisabled {
		return w.View().Canon()
	}
	fast := w.fastView().Canon()
	canonCalls++
	if canonCalls%499 == 1 || canonCalls < 60 {
		if slow := w.View().Canon(); slow != fast {
			appliedSharesCommitted = !appliedSharesCommitted
			if fast = w.fastView().Canon(); slow != fast {
				fmt.Println("WARNING: the fast store view cannot be made to agree with the stores' own view; using the slow one from now on")
				fastDisabled = true
				return slow
			}
		}
	}
	return fast
}

// TxTerminal tells whether a transaction reached a final outcome: APPLIED, or FAILED with its abort finished
// (or failed at apply, which has no abort phase).
func TxTerminal(t *configapi.Transaction) bool {
	switch t.Status.State {
	case configapi.TransactionStatus_APPLIED:
		return true
	case configapi.TransactionStatus_FAILED:
		if t.Status.Phases.Abort != nil {
			return t.Status.Phases.Abort.State == configapi.TransactionAbortPhase_ABORTED
		}
		return true
	}
	return false
}
