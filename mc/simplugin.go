package mc

import (
	"bytes"
	"context"
	"encoding/json"
	"fmt"
	"sort"
	"strings"
	"sync"

	adminapi "github.com/onosproject/onos-api/go/onos/config/admin"
	configapi "github.com/onosproject/onos-api/go/onos/config/v2"
	"github.com/onosproject/onos-config/pkg/pluginregistry"
	"github.com/openconfig/gnmi/proto/gnmi"
	"google.golang.org/grpc"
	"google.golang.org/grpc/metadata"
)

// Model "mini": a small YANG-like model served by the fake model-plugin sidecar.

type miniLeaf struct {
	Path  string // anonymised model path, e.g. /cont/list[name=*]/val
	Type  configapi.ValueType
	Opts  []uint64
	IsKey bool
	Attr  string
}

var miniModel = []miniLeaf{
	{Path: "/top", Type: configapi.ValueType_STRING},
	{Path: "/cont/leafA", Type: configapi.ValueType_STRING},
	{Path: "/cont/leafA2", Type: configapi.ValueType_STRING},
	{Path: "/cont/sub/leafB", Type: configapi.ValueType_UINT, Opts: []uint64{32}},
	{Path: "/cont/sub/leafC", Type: configapi.ValueType_STRING},
	{Path: "/cont/list[name=*]/name", Type: configapi.ValueType_STRING, IsKey: true, Attr: "name"},
	{Path: "/cont/list[name=*]/val", Type: configapi.ValueType_STRING},
	{Path: "/cont/list[name=*]/sub2/x", Type: configapi.ValueType_STRING},
	{Path: "/cont/l2[k1=*][k2=*]/k1", Type: configapi.ValueType_STRING, IsKey: true, Attr: "k1"},
	{Path: "/cont/l2[k1=*][k2=*]/k2", Type: configapi.ValueType_STRING, IsKey: true, Attr: "k2"},
	{Path: "/cont/l2[k1=*][k2=*]/val", Type: configapi.ValueType_INT, Opts: []uint64{32}},
	{Path: "/cont/ll", Type: configapi.ValueType_LEAFLIST_STRING},
	{Path: "/cont/u64", Type: configapi.ValueType_UINT, Opts: []uint64{64}},
	{Path: "/cont/i8", Type: configapi.ValueType_INT, Opts: []uint64{8}},
	{Path: "/cont/i64", Type: configapi.ValueType_INT, Opts: []uint64{64}},
	{Path: "/cont/dec", Type: configapi.ValueType_DECIMAL, Opts: []uint64{2}},
	{Path: "/cont/b", Type: configapi.ValueType_BOOL},
	{Path: "/cont/by", Type: configapi.ValueType_BYTES},
	{Path: "/cont/f", Type: configapi.ValueType_FLOAT},
	{Path: "/cont/llu", Type: configapi.ValueType_LEAFLIST_UINT, Opts: []uint64{64}},
}

// miniSchema: list schema path -> key names (for the independent flattener)
var miniSchema = map[string][]string{
	"/cont/list": {"name"},
	"/cont/l2":   {"k1", "k2"},
}

// verdictFn decides on a flattened candidate document; "" accepts, anything else is the rejection message.
type verdictFn func(flat map[string]string) string

// simPlugin is a fake admin.ModelPluginServiceClient for one (type, version).
type simPlugin struct {
	name, version string
	mu            sync.Mutex
	verdict       verdictFn
	// documents received on ValidateConfigChunked since the last TakeDocs, in order
	docs []pluginDoc
}

type pluginDoc struct {
	Doc    []byte
	Chunks []int
	Valid  bool
}

func newSimPlugin(name, version string) *simPlugin {
	return &simPlugin{name: name, version: version}
}

func (p *simPlugin) SetVerdict(f verdictFn) {
	p.mu.Lock()
	p.verdict = f
	p.mu.Unlock()
}

func (p *simPlugin) TakeDocs() []pluginDoc {
	p.mu.Lock()
	defer p.mu.Unlock()
	d := p.docs
	p.docs = nil
	return d
}

func (p *simPlugin) GetModelInfo(ctx context.Context, in *adminapi.ModelInfoRequest, opts ...grpc.CallOption) (*adminapi.ModelInfoResponse, error) {
	info := &adminapi.ModelInfo{Name: p.name, Version: p.version,
		ModelData:          []*gnmi.ModelData{{Name: "mini", Organization: "verif", Version: "2026-01-01"}},
		SupportedEncodings: []gnmi.Encoding{gnmi.Encoding_JSON_IETF}}
	for _, l := range miniModel {
		info.ReadWritePath = append(info.ReadWritePath, &adminapi.ReadWritePath{Path: l.Path, ValueType: l.Type, TypeOpts: l.Opts, IsAKey: l.IsKey, AttrName: l.Attr})
	}
	return &adminapi.ModelInfoResponse{ModelInfo: info}, nil
}

func (p *simPlugin) ValidateConfig(ctx context.Context, in *adminapi.ValidateConfigRequest, opts ...grpc.CallOption) (*adminapi.ValidateConfigResponse, error) {
	return nil, fmt.Errorf("simplugin: ValidateConfig (unchunked) is not used by onos-config")
}

type simValidateStream struct {
	p      *simPlugin
	ctx    context.Context
	buf    bytes.Buffer
	chunks []int
}

func (s *simValidateStream) Send(c *adminapi.ValidateConfigRequestChunk) error {
	s.buf.Write(c.Json)
	s.chunks = append(s.chunks, len(c.Json))
	return nil
}

func flattenMiniDoc(doc []byte) (map[string]string, []string, error) {
	dec := json.NewDecoder(bytes.NewReader(doc))
	dec.UseNumber()
	var root interface{}
	if err := dec.Decode(&root); err != nil {
		return nil, nil, err
	}
	flat := map[string]string{}
	var problems []string
	c18Flatten(root, "", "", miniSchema, flat, &problems)
	return flat, problems, nil
}

func (s *simValidateStream) CloseAndRecv() (*adminapi.ValidateConfigResponse, error) {
	doc := append([]byte{}, s.buf.Bytes()...)
	msg := ""
	s.p.mu.Lock()
	v := s.p.verdict
	s.p.mu.Unlock()
	if v != nil {
		flat, _, err := flattenMiniDoc(doc)
		if err != nil {
			msg = "unparsable document: " + err.Error()
		} else {
			msg = v(flat)
		}
	}
	s.p.mu.Lock()
	s.p.docs = append(s.p.docs, pluginDoc{Doc: doc, Chunks: s.chunks, Valid: msg == ""})
	s.p.mu.Unlock()
	return &adminapi.ValidateConfigResponse{Valid: msg == "", Message: msg}, nil
}
func (s *simValidateStream) Header() (metadata.MD, error) { return nil, nil }
func (s *simValidateStream) Trailer() metadata.MD         { return nil }
func (s *simValidateStream) CloseSend() error             { return nil }
func (s *simValidateStream) Context() context.Context     { return s.ctx }
func (s *simValidateStream) SendMsg(m interface{}) error  { return nil }
func (s *simValidateStream) RecvMsg(m interface{}) error  { return nil }

func (p *simPlugin) ValidateConfigChunked(ctx context.Context, opts ...grpc.CallOption) (adminapi.ModelPluginService_ValidateConfigChunkedClient, error) {
	return &simValidateStream{p: p, ctx: ctx}, nil
}

// GetPathValues turns a JSON value into typed path values: objects are containers, everything else a leaf
// typed by the model (strings when the model does not know the path). Lists are not supported (refused).
func (p *simPlugin) GetPathValues(ctx context.Context, in *adminapi.PathValuesRequest, opts ...grpc.CallOption) (*adminapi.PathValuesResponse, error) {
	dec := json.NewDecoder(bytes.NewReader(in.Json))
	dec.UseNumber()
	var root interface{}
	if err := dec.Decode(&root); err != nil {
		return nil, fmt.Errorf("invalid JSON: %v", err)
	}
	prefix := strings.TrimSuffix(in.PathPrefix, "/")
	resp := &adminapi.PathValuesResponse{}
	var walk func(node interface{}, path string) error
	walk = func(node interface{}, path string) error {
		switch x := node.(type) {
		case map[string]interface{}:
			keys := make([]string, 0, len(x))
			for k := range x {
				keys = append(keys, k)
			}
			sort.Strings(keys)
			for _, k := range keys {
				if err := walk(x[k], path+"/"+k); err != nil {
					return err
				}
			}
		case []interface{}:
			return fmt.Errorf("lists are not supported in JSON values by the fake plugin")
		default:
			resp.PathValues = append(resp.PathValues, &configapi.PathValue{Path: path, Value: *configapi.NewTypedValueString(fmt.Sprint(x))})
		}
		return nil
	}
	if err := walk(root, prefix); err != nil {
		return nil, err
	}
	return resp, nil
}

func (p *simPlugin) GetValueSelection(ctx context.Context, in *adminapi.ValueSelectionRequest, opts ...grpc.CallOption) (*adminapi.ValueSelectionResponse, error) {
	return &adminapi.ValueSelectionResponse{Selection: []string{}}, nil
}

func (p *simPlugin) GetValueSelectionChunked(ctx context.Context, opts ...grpc.CallOption) (adminapi.ModelPluginService_GetValueSelectionChunkedClient, error) {
	return nil, fmt.Errorf("simplugin: GetValueSelectionChunked not implemented")
}

// newRegistry builds the real plugin registry on top of the fake clients.
func newRegistry(plugins ...*simPlugin) pluginregistry.PluginRegistry {
	endpoints := make([]string, 0, len(plugins))
	byEndpoint := map[string]*simPlugin{}
	for _, p := range plugins {
		ep := p.name + ":" + p.version
		endpoints = append(endpoints, ep)
		byEndpoint[ep] = p
	}
	reg := pluginregistry.NewPluginRegistry(endpoints...)
	reg.NewClientFn(func(endpoint string) (adminapi.ModelPluginServiceClient, error) {
		return byEndpoint[endpoint], nil
	})
	reg.Start()
	return reg
}
