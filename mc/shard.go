package mc

import (
	"encoding/json"
	"fmt"
	"hash/fnv"
	"os"
	"os/exec"
	"path/filepath"
	"strings"
	"sync"
)

// Shard identifies the part of the work a process does: items whose index % N == I.
type Shard struct{ I, N int }

func (s Shard) Mine(index int) bool { return s.N <= 1 || index%s.N == s.I }

// ShardResult is what a shard body returns besides the violations it put into its report.
type ShardResult struct {
	Numbers  map[string]int64    // additive counters
	Distinct map[string][]uint64 // named sets of hashes, united across shards
	Extra    map[string]interface{}
}

func newShardResult() *ShardResult {
	return &ShardResult{Numbers: map[string]int64{}, Distinct: map[string][]uint64{}, Extra: map[string]interface{}{}}
}

func hash64(s string) uint64 {
	h := fnv.New64a()
	h.Write([]byte(s))
	return h.Sum64()
}

// hashSet is a set of strings kept as hashes.
type hashSet map[uint64]struct{}

func (h hashSet) Add(s string) bool {
	k := hash64(s)
	if _, ok := h[k]; ok {
		return false
	}
	h[k] = struct{}{}
	return true
}

func (h hashSet) List() []uint64 {
	l := make([]uint64, 0, len(h))
	for k := range h {
		l = append(l, k)
	}
	return l
}

func parseShard(s string) Shard {
	var sh Shard
	if _, err := fmt.Sscanf(s, "%d/%d", &sh.I, &sh.N); err != nil {
		panic("bad -worker spec " + s)
	}
	return sh
}

func defaultWorkers() int {
	if v := os.Getenv("VERIF_WORKERS"); v != "" {
		var n int
		if _, err := fmt.Sscan(v, &n); err == nil && n > 0 {
			return n
		}
	}
	return 14
}

// runSharded runs body either as a worker (when -worker is given) or as the coordinator that spawns nWorkers copies
// of this binary, waits for them and merges what they found. The returned numbers are the sums over the shards and
// the sizes of the united distinct sets (under "distinct:<name>").
func runSharded(rc *RunCtx, rep *Report, nWorkers int, body func(sh Shard, rep *Report) *ShardResult) (map[string]int64, map[string]interface{}) {
	stage := rc.stage
	rc.stage++
	if rc.Worker != "" {
		spec, want := rc.Worker, 0
		if i := strings.Index(spec, "@"); i >= 0 {
			fmt.Sscan(spec[i+1:], &want)
			spec = spec[:i]
		}
		if want != stage {
			// another stage's worker: this stage contributes nothing to it
			return map[string]int64{}, map[string]interface{}{}
		}
		sh := parseShard(spec)
		res := body(sh, rep)
		wr := rep.toWorkerResult(res.Numbers)
		wr.Extra = res.Extra
		if wr.Extra == nil {
			wr.Extra = map[string]interface{}{}
		}
		wr.Extra["__distinct"] = res.Distinct
		writeWorkerResult(rc.Out, wr)
		os.Exit(0)
	}
	if rc.Replay != "" || nWorkers <= 1 {
		res := body(Shard{0, 1}, rep)
		nums := res.Numbers
		for name, l := range res.Distinct {
			nums["distinct:"+name] = int64(len(l))
		}
		return nums, res.Extra
	}
	work := filepath.Join(rc.Root, ".work", fmt.Sprintf("%s-%d-s%d", rc.ID, os.Getpid(), stage))
	_ = os.MkdirAll(work, 0o755)
	defer os.RemoveAll(work)
	exe, err := os.Executable()
	if err != nil {
		rep.HarnessErr = err.Error()
		return nil, nil
	}
	var wg sync.WaitGroup
	outs := make([]string, nWorkers)
	errs := make([]string, nWorkers)
	crashes := make([]*workerCrash, nWorkers)
	for i := 0; i < nWorkers; i++ {
		i := i
		outs[i] = filepath.Join(work, fmt.Sprintf("w%d.json", i))
		wg.Add(1)
		go func() {
			defer wg.Done()
			args := []string{"-test.run", "^TestCheck$", "-test.timeout", "0", "-check", rc.ID, "-tier", rc.Tier, "-root", rc.Root,
				"-worker", fmt.Sprintf("%d/%d@%d", i, nWorkers, stage), "-out", outs[i]}
			if !rc.Deadline.IsZero() {
				left := rc.Deadline.Sub(realNow())
				if left < 0 {
					left = 1
				}
				args = append(args, "-budget", left.String())
			}
			cmd := exec.Command(exe, args...)
			cmd.Env = append(os.Environ(), "GOMAXPROCS=2")
			logf, _ := os.Create(filepath.Join(work, fmt.Sprintf("w%d.log", i)))
			cmd.Stdout, cmd.Stderr = logf, logf
			if err := cmd.Run(); err != nil {
				errs[i] = err.Error()
			}
			logf.Close()
			if _, err := os.Stat(outs[i]); err != nil {
				b, _ := os.ReadFile(filepath.Join(work, fmt.Sprintf("w%d.log", i)))
				if site, msg, exec := crashInRepoCode(string(b)); site != "" {
					// the code under test brought the whole process down (a panic outside any recover): that is
					// a finding about the code, not a harness failure; the rest of the shard stays unexplored
					crashes[i] = &workerCrash{site, msg, exec}
					errs[i] = ""
					return
				}
				tail := string(b)
				if len(tail) > 3000 {
					tail = tail[len(tail)-3000:]
				}
				errs[i] = fmt.Sprintf("worker %d produced no result (%s); log tail: %s", i, errs[i], tail)
			} else {
				errs[i] = ""
			}
		}()
	}
	wg.Wait()
	nums := map[string]int64{}
	distinct := map[string]map[uint64]struct{}{}
	extra := map[string]interface{}{}
	for i := 0; i < nWorkers; i++ {
		if errs[i] != "" {
			rep.HarnessErr = errs[i]
			return nums, extra
		}
		if c := crashes[i]; c != nil {
			rep.Exhaustive = false
			rep.Violate("process-crash/"+c.site, fmt.Sprintf("the process died: %s; last execution started: %s", c.msg, c.exec),
				map[string]interface{}{"kind": "process-crash", "exec": c.exec})
			continue
		}
		b, err := os.ReadFile(outs[i])
		if err != nil {
			rep.HarnessErr = err.Error()
			return nums, extra
		}
		var wr workerResult
		dec := json.NewDecoder(strings.NewReader(string(b)))
		dec.UseNumber()
		if err := dec.Decode(&wr); err != nil {
			rep.HarnessErr = fmt.Sprintf("worker %d result: %v", i, err)
			return nums, extra
		}
		rep.Merge(&wr)
		for k, v := range wr.Numbers {
			nums[k] += v
		}
		for k, v := range wr.Extra {
			if k == "__distinct" {
				if m, ok := v.(map[string]interface{}); ok {
					for name, l := range m {
						if distinct[name] == nil {
							distinct[name] = map[uint64]struct{}{}
						}
						if arr, ok := l.([]interface{}); ok {
							for _, x := range arr {
								if n, ok := x.(json.Number); ok {
									var u uint64
									fmt.Sscan(n.String(), &u)
									distinct[name][u] = struct{}{}
								}
							}
						}
					}
				}
				continue
			}
			if _, dup := extra[k]; !dup {
				extra[k] = v
			}
		}
	}
	for name, s := range distinct {
		nums["distinct:"+name] = int64(len(s))
	}
	return nums, extra
}

type workerCrash struct{ site, msg, exec string }

// crashInRepoCode looks at the log of a worker that died for a Go panic / fatal error raised in onos-config code.
// It returns the innermost onos-config function of the panicking goroutine, the panic message and the last
// "EXEC ..." line the worker printed (the execution it was running).
func crashInRepoCode(log string) (site, msg, exec string) {
	lines := strings.Split(log, "\n")
	start := -1
	for i, l := range lines {
		if strings.HasPrefix(l, "EXEC ") {
			exec = strings.TrimPrefix(l, "EXEC ")
		}
		if start < 0 && (strings.HasPrefix(l, "panic: ") || strings.HasPrefix(l, "fatal error: ")) {
			start = i
			msg = l
		}
	}
	if start < 0 {
		return "", "", ""
	}
	for _, l := range lines[start+1:] {
		if l == "" && site != "" {
			break
		}
		if strings.HasPrefix(l, "github.com/onosproject/onos-config/") {
			f := strings.TrimPrefix(l, "github.com/onosproject/onos-config/")
			if i := strings.LastIndex(f, "("); i > 0 {
				f = f[:i]
			}
			return f, msg, exec
		}
		if strings.HasPrefix(l, "verif/mc.") {
			return "", "", "" // the harness itself panicked
		}
		if strings.HasPrefix(l, "goroutine ") && site == "" && !strings.Contains(l, "[running") {
			break
		}
	}
	return "", "", ""
}
