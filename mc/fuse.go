package mc

import "sync"

// fuse is the shared crash fuse and effect counter of a world. Every external effect (store write, topo write,
// device Set) asks Effect() first; once the fuse has blown nothing has any effect any more: the process is dead.
type fuse struct {
	mu        sync.Mutex
	remaining int // <0: disarmed
	crashed   bool
	effects   int
	writes    []string
	// gate, when set, is called (with no lock held) whenever a call that may have an external effect arrives at a
	// simulated neighbour: a store write RPC, a topo write, a device Set. Split steps (hold / release) park there.
	gate func(kind string)
}

// Gate is called by the simulations at the arrival of a possibly effectful call, before any lock is taken.
func (f *fuse) Gate(kind string) {
	if f == nil {
		return
	}
	f.mu.Lock()
	g := f.gate
	f.mu.Unlock()
	if g != nil {
		g(kind)
	}
}

func (f *fuse) SetGate(g func(kind string)) {
	f.mu.Lock()
	f.gate = g
	f.mu.Unlock()
}

func newFuse() *fuse { return &fuse{remaining: -1} }

// Effect reports whether the effect may happen.
func (f *fuse) Effect(desc string) bool {
	if f == nil {
		return true
	}
	f.mu.Lock()
	defer f.mu.Unlock()
	if f.crashed {
		return false
	}
	if f.remaining == 0 {
		f.crashed = true
		return false
	}
	if f.remaining > 0 {
		f.remaining--
	}
	f.effects++
	f.writes = append(f.writes, desc)
	return true
}

// Crashed reports whether the process is dead.
func (f *fuse) Crashed() bool {
	if f == nil {
		return false
	}
	f.mu.Lock()
	defer f.mu.Unlock()
	return f.crashed
}

// Arm lets k more effects happen, then kills the process at the next one.
func (f *fuse) Arm(k int) {
	f.mu.Lock()
	defer f.mu.Unlock()
	f.remaining, f.crashed = k, false
}

// Kill kills the process now (crash between steps).
func (f *fuse) Kill() {
	f.mu.Lock()
	defer f.mu.Unlock()
	f.crashed = true
}

func (f *fuse) Disarm() {
	f.mu.Lock()
	defer f.mu.Unlock()
	f.remaining, f.crashed = -1, false
}

func (f *fuse) ResetEffects() (int, []string) {
	f.mu.Lock()
	defer f.mu.Unlock()
	n, w := f.effects, f.writes
	f.effects, f.writes = 0, nil
	return n, w
}
