package mc

import (
	"context"
	"fmt"
	"sort"
	"strings"

	configapi "github.com/onosproject/onos-api/go/onos/config/v2"
)

// C06 – rolling back the latest change restores exactly the previous state (E3h).

type c06Node struct {
	snap   *WorldSnap
	refs   map[string]refCfg
	hist   []string
	parent *c06Node
	lastTx uint64 // index of the transaction of the last change of the history (0 = none)
}

func devText(w *World) string {
	ts := make([]string, 0, len(w.devices))
	for t := range w.devices {
		ts = append(ts, t)
	}
	sort.Strings(ts)
	var b strings.Builder
	for _, t := range ts {
		c := w.devices[t].Content()
		keys := make([]string, 0, len(c))
		for k, v := range c {
			keys = append(keys, k+"="+v)
		}
		sort.Strings(keys)
		b.WriteString(t + "{" + strings.Join(keys, ";") + "} ")
	}
	return b.String()
}

func getAllText(w *World, targets []string) string {
	var b strings.Builder
	for _, t := range targets {
		got, err := w.GetProto(GetQuery{Target: t})
		if err != nil {
			got = map[string]string{}
		}
		b.WriteString(t + refCfg(got).String() + " ")
	}
	return b.String()
}

func indexText(w *World) string {
	v := w.View()
	var parts []string
	for _, c := range v.Cfgs {
		// Configuration.Index: the change the configuration reflects. (The committed/applied cursors legitimately
		// move past a refused entry of the log: that is how an aborted proposal gets out of the way.)
		parts = append(parts, fmt.Sprintf("%s:%d", c.TargetID, c.Index))
	}
	sort.Strings(parts)
	return strings.Join(parts, " ")
}

func lastTxIndex(w *World) uint64 {
	v := w.View()
	if len(v.Txs) == 0 {
		return 0
	}
	return uint64(v.Txs[len(v.Txs)-1].Index)
}

// c06Cause classifies what a rollback failed to restore.
func c06Cause(req SetReq, wantGet, gotGet string) string {
	hasSubtreeDelete := false
	for _, ops := range req.refOps() {
		for _, o := range ops {
			if !o.Delete {
				continue
			}
			for _, l := range miniModel {
				lp := strings.NewReplacer("[name=*]", "", "[k1=*]", "", "[k2=*]", "").Replace(l.Path)
				op := o.Path
				for _, k := range []string{"[name=a]", "[name=ab]"} {
					op = strings.ReplaceAll(op, k, "")
				}
				if strings.HasPrefix(lp, op+"/") {
					hasSubtreeDelete = true
				}
			}
		}
	}
	if hasSubtreeDelete {
		return "subtree-delete-not-restored"
	}
	for _, o := range req.Ops {
		if o.Kind == "delete" {
			return "leaf-delete-not-restored"
		}
	}
	return "overwrite-or-creation-not-undone"
}

// c06CauseIn attributes a difference to a cause, looking at the whole history: the consequences of the two recorded
// defects are named after them, whatever request happens to be rolled back when they show.
//   - a request of the history deletes a node and writes beneath it in one go (its update is stored but hidden by
//     the request's own tombstone; a later rollback may bring it to light, on the device too);
//   - second: the change rolled back first was a subtree delete, whose children a rollback does not bring back, so
//     the state "two changes ago" cannot be reached by the second rollback either.
func c06CauseIn(hist []string, req SetReq, firstRolledBack *SetReq, want, got string) string {
	for _, name := range hist {
		if c03DeleteCoversUpdate(c06ByName(name)) {
			return "after-delete-and-update-below-in-one-request"
		}
	}
	if firstRolledBack != nil && c06Cause(*firstRolledBack, want, got) == "subtree-delete-not-restored" && c06Cause(req, want, got) != "subtree-delete-not-restored" {
		return "after-unrestored-subtree-delete"
	}
	return c06Cause(req, want, got)
}

// the C03 alphabet plus a Set that the model rejects (it stays in the log as a failed transaction)
func c06Alphabet() []SetReq {
	return append(append([]SetReq{}, c03Alphabet...), SetReq{Name: "leafA=bad (rejected by the model)", Ops: []ReqOp{{Kind: "update", Target: "T1", Path: "/cont/leafA", Val: "bad"}}})
}

func c06ByName(name string) SetReq {
	for _, r := range c06Alphabet() {
		if r.Name == name {
			return r
		}
	}
	return SetReq{}
}

func checkC06(rc *RunCtx) *Report {
	rep := newReport("exploration")
	targets := []string{"T1", "T2"}
	hw := NewHistWorld(WorldConfig{Targets: targets}, true)
	hw.W.plugins["T1"].SetVerdict(rejectIf(func(f map[string]string) bool { return f["/cont/leafA"] == "bad" }, "leafA must not be bad"))
	maxLen := 2
	if rc.Thorough() {
		maxLen = 3
	}
	if rc.Replay != "" {
		var hist []string
		if err := loadReplay(rc.Replay, "history", &hist); err != nil {
			rep.HarnessErr = err.Error()
			return rep
		}
		w := hw.W
		for _, name := range hist {
			if r, ok := c03ByName(name); ok {
				res := hw.ExecSet(context.Background(), r.build(), nil)
				fmt.Printf("replay %q: err=%v\n  get %s\n  dev %s\n", name, res.Err, getAllText(w, targets), devText(w))
			}
		}
		res := hw.ExecRollback(context.Background(), lastTxIndex(w), nil)
		fmt.Printf("rollback(%d): done=%v err=%v\n  get %s\n  dev %s\n%s\n", lastTxIndex(w), res.Done, res.Err, getAllText(w, targets), devText(w), w.StoreCanon())
		rep.Coverage["evaluations"] = 1
		return rep
	}
	nums, _ := runSharded(rc, rep, defaultWorkers(), func(sh Shard, rep *Report) *ShardResult {
		out := newShardResult()
		w := hw.W
		evals, rollbacks, refusals := 0, 0, 0
		distinct := hashSet{}
		root := &c06Node{snap: w.Snapshot(), refs: map[string]refCfg{}}
		frontier := []*c06Node{root}
		seen := hashSet{}
		for depth := 1; depth <= maxLen && !rc.Expired(); depth++ {
			var next []*c06Node
			for ni, n := range frontier {
				if rc.Expired() {
					break
				}
				if depth == 2 && !sh.Mine(ni) {
					continue
				}
				evaluate := depth > 1 || sh.I == 0
				for _, r := range c06Alphabet() {
					hist := append(append([]string{}, n.hist...), r.Name)
					w.Restore(n.snap)
					getBefore, devBefore := getAllText(w, targets), devText(w)
					res := hw.ExecSet(context.Background(), r.build(), nil)
					if strings.Contains(r.Name, "rejected") {
						// the failed entry of the log cannot be rolled back
						failedIdx := lastTxIndex(w)
						g0, d0, i0 := getAllText(w, targets), devText(w), indexText(w)
						rr := hw.ExecRollback(context.Background(), failedIdx, nil)
						evals++
						refusals++
						rp := map[string]interface{}{"kind": "c06-history", "history": hist}
						if rr.Done && rr.Err == nil {
							rep.Violate("rollback-of-a-failed-change-accepted", fmt.Sprintf("history %v: the last Set was rejected by the model, yet rollback(%d) of it is accepted", hist, failedIdx), rp)
						}
						if g, d, i := getAllText(w, targets), devText(w), indexText(w); g != g0 || d != d0 || i != i0 {
							rep.Violate("refused-rollback-altered-state", fmt.Sprintf("history %v: rollback of the rejected change %d changed something: get %s -> %s, devices %s -> %s, indexes %s -> %s", hist, failedIdx, g0, g, d0, d, i0, i), rp)
						}
						continue
					}
					if !res.Done || !res.Idle || res.Err != nil || len(res.Panics) > 0 {
						continue // C03's business
					}
					refs := map[string]refCfg{}
					for t, c := range n.refs {
						refs[t] = c
					}
					for t, ops := range r.refOps() {
						if refs[t] == nil {
							refs[t] = refCfg{}
						}
						refs[t] = refs[t].apply(ops)
					}
					idx := lastTxIndex(w)
					child := &c06Node{snap: w.Snapshot(), refs: refs, hist: hist, parent: n, lastTx: idx}
					key := c03RefKey(refs) + " || " + c03StoredKey(w)
					if seen.Add(key) && depth < maxLen {
						next = append(next, child)
					}
					if !evaluate {
						continue
					}
					distinct.Add(key)
					replay := map[string]interface{}{"kind": "c06-history", "history": hist}
					getAfter, devAfter, idxAfter := getAllText(w, targets), devText(w), indexText(w)
					// 1. requests that must be refused: a non-latest change, a missing index, index 0
					var bad []uint64
					if n.lastTx != 0 && sameTargets(c06ByName(n.hist[len(n.hist)-1]), r) {
						bad = append(bad, n.lastTx)
					}
					bad = append(bad, idx+7, 0)
					for _, b := range bad {
						w.Restore(child.snap)
						rr := hw.ExecRollback(context.Background(), b, nil)
						evals++
						refusals++
						what := "a transaction that is not the latest change of its targets"
						if b == 0 || b > idx {
							what = "an index that does not exist"
						}
						if !rr.Done {
							rep.Violate("refusable-rollback-not-answered", fmt.Sprintf("history %v: rollback of %s (%d) is not answered", hist, what, b), replay)
						} else if rr.Err == nil {
							rep.Violate("refusable-rollback-accepted", fmt.Sprintf("history %v: rollback of %s (%d) is accepted", hist, what, b), replay)
						}
						if g, d, i := getAllText(w, targets), devText(w), indexText(w); g != getAfter || d != devAfter || i != idxAfter {
							rep.Violate("refused-rollback-altered-state", fmt.Sprintf("history %v: refused rollback of %d changed something: get %s -> %s, devices %s -> %s, indexes %s -> %s", hist, b, getAfter, g, devAfter, d, idxAfter, i), replay)
						}
					}
					// 2. roll back the change just made
					w.Restore(child.snap)
					rr := hw.ExecRollback(context.Background(), idx, nil)
					evals++
					rollbacks++
					if !rr.Done || rr.Err != nil || !rr.Idle {
						rep.Violate("rollback-of-latest-change-refused", fmt.Sprintf("history %v: rollback of the latest change (%d) fails: done=%v err=%v", hist, idx, rr.Done, rr.Err), replay)
						continue
					}
					if g := getAllText(w, targets); g != getBefore {
						rep.Violate("stored-configuration-not-restored/"+c06CauseIn(hist, r, nil, getBefore, g), fmt.Sprintf("history %v then rollback(%d): Get returns %s, before the change it returned %s", hist, idx, g, getBefore), replay)
					}
					if d := devText(w); d != devBefore {
						rep.Violate("device-not-restored/"+c06CauseIn(hist, r, nil, devBefore, d), fmt.Sprintf("history %v then rollback(%d): devices hold %s, before the change they held %s", hist, idx, d, devBefore), replay)
					}
					// 3. a rollback cannot be rolled back
					rbIdx := lastTxIndex(w)
					g1, d1 := getAllText(w, targets), devText(w)
					r3 := hw.ExecRollback(context.Background(), rbIdx, nil)
					evals++
					refusals++
					if r3.Done && r3.Err == nil {
						rep.Violate("rollback-of-a-rollback-accepted", fmt.Sprintf("history %v, rollback(%d), then rollback(%d) of that rollback is accepted", hist, idx, rbIdx), replay)
					}
					if g, d := getAllText(w, targets), devText(w); g != g1 || d != d1 {
						rep.Violate("refused-rollback-altered-state", fmt.Sprintf("history %v: refused rollback of a rollback changed something", hist), replay)
					}
					// 4. after that, the predecessor is the latest change again and can be rolled back too
					if n.lastTx != 0 && n.parent != nil && sameTargets(c06ByName(n.hist[len(n.hist)-1]), r) {
						w.Restore(n.parent.snap)
						gBB, dBB := getAllText(w, targets), devText(w)
						w.Restore(child.snap)
						hw.ExecRollback(context.Background(), idx, nil)
						r4 := hw.ExecRollback(context.Background(), n.lastTx, nil)
						evals++
						rollbacks++
						if !r4.Done || r4.Err != nil {
							rep.Violate("second-rollback-refused", fmt.Sprintf("history %v: after rollback(%d) the rollback of its predecessor (%d) fails: %v", hist, idx, n.lastTx, r4.Err), replay)
						} else {
							prevReq := c06ByName(n.hist[len(n.hist)-1])
							if g := getAllText(w, targets); g != gBB {
								rep.Violate("stored-configuration-not-restored/second/"+c06CauseIn(hist, prevReq, &r, gBB, g), fmt.Sprintf("history %v, rollback(%d), rollback(%d): Get returns %s, two changes ago it returned %s", hist, idx, n.lastTx, g, gBB), replay)
							}
							if d := devText(w); d != dBB {
								rep.Violate("device-not-restored/second/"+c06CauseIn(hist, prevReq, &r, dBB, d), fmt.Sprintf("history %v, rollback(%d), rollback(%d): devices hold %s, two changes ago %s", hist, idx, n.lastTx, d, dBB), replay)
							}
							// a change that was rolled back is not the configuration's latest change any more
							g5, d5, i5 := getAllText(w, targets), devText(w), indexText(w)
							r5 := hw.ExecRollback(context.Background(), idx, nil)
							evals++
							refusals++
							if r5.Done && r5.Err == nil {
								rep.Violate("rollback-of-an-already-rolled-back-change-accepted", fmt.Sprintf("history %v, rollback(%d), rollback(%d), then rollback(%d) again is accepted", hist, idx, n.lastTx, idx), replay)
							}
							if g, d, i := getAllText(w, targets), devText(w), indexText(w); g != g5 || d != d5 || i != i5 {
								rep.Violate("refused-rollback-altered-state", fmt.Sprintf("history %v: the repeated rollback(%d) changed something: get %s -> %s, devices %s -> %s", hist, idx, g5, g, d5, d), replay)
							}
						}
					}
					if evals%211 < 4 {
						rep.Sample(4, map[string]interface{}{"history": hist, "rolled_back": idx})
					}
				}
			}
			frontier = next
		}
		if rc.Expired() {
			rep.Exhaustive = false
		}
		out.Numbers["evaluations"] = int64(evals)
		out.Numbers["rollbacks"] = int64(rollbacks)
		out.Numbers["refusable_requests"] = int64(refusals)
		out.Distinct["states"] = distinct.List()
		return out
	})
	rep.Coverage["evaluations"] = nums["evaluations"]
	rep.Coverage["distinct_nontrivial"] = nums["distinct:states"]
	rep.Coverage["rollbacks_of_latest_change"] = nums["rollbacks"]
	rep.Coverage["refusable_requests"] = nums["refusable_requests"]
	rep.Coverage["rule"] = fmt.Sprintf("every history of 1..%d Set requests over the C03 alphabet (%d requests: leaf/subtree/list-entry deletes, overwrites, re-creation, two targets), devices connected, each run to idle through the real handlers and controllers; then: rollback of the latest change (Get on every target and device content must equal the state before the change), rollback of that rollback (refused), rollback of the predecessor afterwards (state of two changes ago), rollback of a non-latest change, of index 0 and of a missing index (refused, nothing altered); non-trivial = distinct (reference, stored) contents from which a rollback was run", maxLen, len(c03Alphabet))
	rep.Assumptions = append(rep.Assumptions, "histories run under the default (oldest-first) schedule; interleavings, a crash and a split step around one change and its rollback are explored by the schedule part (scenarios R1..R4)")
	// the schedule part: a change and its rollback under every interleaving, one crash, one split step
	c06Schedules(rc, rep)
	return rep
}

func c03ByNameMust(name string) SetReq {
	r, _ := c03ByName(name)
	return r
}

// sameTargets: do the two requests touch exactly the same targets (then the earlier one is "not the latest" after the later)?
func sameTargets(a, b SetReq) bool {
	ta, tb := map[string]bool{}, map[string]bool{}
	for t := range a.refOps() {
		ta[t] = true
	}
	for t := range b.refOps() {
		tb[t] = true
	}
	if len(ta) != len(tb) {
		return false
	}
	for t := range ta {
		if !tb[t] {
			return false
		}
	}
	return true
}

var _ = configapi.Index(0)

func init() { registerBubble("C06", checkC06) }
