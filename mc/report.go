package mc

import (
	"bufio"
	"encoding/json"
	"fmt"
	"os"
	"path/filepath"
	"sort"
	"strings"
	"sync"
)

// Violation is one property violation found by a check. Class is a short canonical
// string computed from the *cause* (not from the trace) so that another witness of
// the same defect matches a listed known finding and a different defect does not.
type Violation struct {
	Class  string      `json:"class"`
	What   string      `json:"what"`
	Replay interface{} `json:"replay,omitempty"` // data needed to re-execute the case
}

// Report is what a check hands back to the framework.
type Report struct {
	Level       string // exploration | model_checking | ...
	Coverage    map[string]interface{}
	Assumptions []string
	Exhaustive  bool
	HarnessErr  string // non-empty: harness error (exit 2), never a VIOLATION

	mu         sync.Mutex
	violations map[string]*Violation // first witness per class
	counts     map[string]int
	samples    []interface{}
}

func newReport(level string) *Report {
	return &Report{Level: level, Coverage: map[string]interface{}{}, violations: map[string]*Violation{}, counts: map[string]int{}, Exhaustive: true}
}

// Violate records a violation; only the first witness of each class is kept.
func (r *Report) Violate(class, what string, replay interface{}) {
	r.mu.Lock()
	defer r.mu.Unlock()
	r.counts[class]++
	if _, ok := r.violations[class]; !ok {
		r.violations[class] = &Violation{Class: class, What: what, Replay: replay}
	}
}

// Sample keeps up to n example cases for the evidence file.
func (r *Report) Sample(n int, s interface{}) {
	r.mu.Lock()
	defer r.mu.Unlock()
	if len(r.samples) < n {
		r.samples = append(r.samples, s)
	}
}

// NumViolationClasses returns how many distinct classes were recorded.
func (r *Report) NumViolationClasses() int {
	r.mu.Lock()
	defer r.mu.Unlock()
	return len(r.violations)
}

// Merge folds a worker's partial report into r (counts are added, first witnesses kept).
func (r *Report) Merge(o *workerResult) {
	r.mu.Lock()
	defer r.mu.Unlock()
	for _, v := range o.Violations {
		r.counts[v.Class] += o.Counts[v.Class]
		if _, ok := r.violations[v.Class]; !ok {
			vv := v
			r.violations[v.Class] = &vv
		}
	}
	for _, s := range o.Samples {
		if len(r.samples) < 6 {
			r.samples = append(r.samples, s)
		}
	}
	if !o.Exhaustive {
		r.Exhaustive = false
	}
	if o.HarnessErr != "" && r.HarnessErr == "" {
		r.HarnessErr = o.HarnessErr
	}
}

// workerResult is the serialised partial report of a worker process.
type workerResult struct {
	Violations []Violation            `json:"violations"`
	Counts     map[string]int         `json:"counts"`
	Samples    []interface{}          `json:"samples"`
	Numbers    map[string]int64       `json:"numbers"`
	Extra      map[string]interface{} `json:"extra,omitempty"`
	Exhaustive bool                   `json:"exhaustive"`
	HarnessErr string                 `json:"harness_err,omitempty"`
}

func (r *Report) toWorkerResult(numbers map[string]int64) *workerResult {
	r.mu.Lock()
	defer r.mu.Unlock()
	w := &workerResult{Counts: r.counts, Samples: r.samples, Numbers: numbers, Exhaustive: r.Exhaustive, HarnessErr: r.HarnessErr}
	for _, v := range r.violations {
		w.Violations = append(w.Violations, *v)
	}
	sort.Slice(w.Violations, func(i, j int) bool { return w.Violations[i].Class < w.Violations[j].Class })
	return w
}

func writeWorkerResult(path string, w *workerResult) {
	b, err := json.Marshal(w)
	if err != nil {
		panic(err)
	}
	if err := os.WriteFile(path, b, 0o644); err != nil {
		panic(err)
	}
}

// knownFinding is one line of /verif/known_findings.txt:
//
//	known: property=<id> class=<class> :: <what fails>
//	fixed: property=<id> <commit> <what failed>
//
// Only "known:" lines suppress anything; "fixed:" lines are documentation.
type knownFinding struct {
	Property string
	Class    string
	What     string
}

func loadKnownFindings(root string) ([]knownFinding, error) {
	f, err := os.Open(filepath.Join(root, "known_findings.txt"))
	if err != nil {
		if os.IsNotExist(err) {
			return nil, nil
		}
		return nil, err
	}
	defer f.Close()
	var out []knownFinding
	sc := bufio.NewScanner(f)
	sc.Buffer(make([]byte, 1<<20), 1<<20)
	for sc.Scan() {
		line := strings.TrimSpace(sc.Text())
		if !strings.HasPrefix(line, "known:") {
			continue
		}
		rest := strings.TrimSpace(strings.TrimPrefix(line, "known:"))
		parts := strings.SplitN(rest, "::", 2)
		kf := knownFinding{}
		for _, fld := range strings.Fields(parts[0]) {
			if strings.HasPrefix(fld, "property=") {
				kf.Property = strings.TrimPrefix(fld, "property=")
			} else if strings.HasPrefix(fld, "class=") {
				kf.Class = strings.TrimPrefix(fld, "class=")
			}
		}
		if len(parts) == 2 {
			kf.What = strings.TrimSpace(parts[1])
		}
		if kf.Property != "" && kf.Class != "" {
			out = append(out, kf)
		}
	}
	return out, sc.Err()
}

// finish writes the evidence file, prints KNOWN-FINDING / VIOLATION lines and returns the exit code.
func finish(rc *RunCtx, rep *Report) int {
	if rep == nil {
		fmt.Println("HARNESS-ERROR: check returned no report")
		return 2
	}
	if rep.HarnessErr != "" {
		fmt.Printf("HARNESS-ERROR: %s\n", rep.HarnessErr)
		return 2
	}
	known, err := loadKnownFindings(rc.Root)
	if err != nil {
		fmt.Printf("HARNESS-ERROR: cannot read known findings: %v\n", err)
		return 2
	}
	isKnown := func(class string) (knownFinding, bool) {
		for _, k := range known {
			if k.Property == rc.ID && k.Class == class {
				return k, true
			}
		}
		return knownFinding{}, false
	}
	classes := make([]string, 0, len(rep.violations))
	for c := range rep.violations {
		classes = append(classes, c)
	}
	sort.Strings(classes)
	exit := 0
	newViolations := 0
	knownSeen := []string{}
	_ = os.MkdirAll(filepath.Join(rc.Root, "replays"), 0o755)
	for i, c := range classes {
		v := rep.violations[c]
		if _, ok := isKnown(c); ok {
			fmt.Printf("KNOWN-FINDING: property=%s %s: %s (witnesses this run: %d)\n", rc.ID, c, oneLine(v.What), rep.counts[c])
			knownSeen = append(knownSeen, c)
			continue
		}
		newViolations++
		path := filepath.Join(rc.Root, "replays", fmt.Sprintf("%s-%d.json", rc.ID, i))
		b, _ := json.MarshalIndent(map[string]interface{}{"property": rc.ID, "class": c, "what": v.What, "replay": v.Replay}, "", " ")
		_ = os.WriteFile(path, b, 0o644)
		fmt.Printf("VIOLATION property=%s replay=%s\n", rc.ID, path)
		fmt.Printf("  class=%s witnesses=%d: %s\n", c, rep.counts[c], oneLine(v.What))
		exit = 1
	}
	cov := rep.Coverage
	cov["exhaustive"] = rep.Exhaustive
	if len(rep.samples) > 0 {
		cov["samples"] = rep.samples
	}
	if len(knownSeen) > 0 {
		cov["known_findings_reproduced"] = knownSeen
	}
	if rep.Assumptions == nil {
		rep.Assumptions = []string{}
	}
	ev := map[string]interface{}{
		"property_id": rc.ID,
		"tier":        rc.Tier,
		"seed":        rc.Seed,
		"level":       rep.Level,
		"coverage":    cov,
		"assumptions": rep.Assumptions,
		"wall_s":      realNow().Sub(rc.Start).Seconds(),
		"violations":  newViolations,
	}
	if rc.Replay == "" && len(rc.ID) >= 3 && rc.ID[0] == 'C' && rc.ID[1] >= '0' && rc.ID[1] <= '9' {
		b, _ := json.MarshalIndent(ev, "", " ")
		_ = os.MkdirAll(filepath.Join(rc.Root, "evidence"), 0o755)
		if err := os.WriteFile(filepath.Join(rc.Root, "evidence", rc.ID+".json"), b, 0o644); err != nil {
			fmt.Printf("HARNESS-ERROR: cannot write evidence: %v\n", err)
			return 2
		}
	}
	summary, _ := json.Marshal(map[string]interface{}{"coverage_keys": len(cov), "exhaustive": rep.Exhaustive, "violations": newViolations, "known": len(knownSeen)})
	fmt.Printf("RESULT property=%s tier=%s %s wall=%.1fs\n", rc.ID, rc.Tier, summary, realNow().Sub(rc.Start).Seconds())
	return exit
}

func oneLine(s string) string {
	s = strings.ReplaceAll(s, "\n", " | ")
	if len(s) > 600 {
		s = s[:600] + "…"
	}
	return s
}

// loadReplay reads field `key` of the "replay" object of a replay file into out.
func loadReplay(path, key string, out interface{}) error {
	b, err := os.ReadFile(path)
	if err != nil {
		return err
	}
	var f struct {
		Replay map[string]json.RawMessage `json:"replay"`
	}
	if err := json.Unmarshal(b, &f); err != nil {
		return err
	}
	raw, ok := f.Replay[key]
	if !ok {
		return fmt.Errorf("replay file %s has no field %q", path, key)
	}
	return json.Unmarshal(raw, out)
}
