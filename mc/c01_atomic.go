package mc

import (
	"fmt"
	"os"
	"sort"
	"strings"

	configapi "github.com/onosproject/onos-api/go/onos/config/v2"
)

// C01 – a multi-target Set is committed on all of its targets or on none.
//
// Engine: E1w (work-set model) with single crashes, candidates confirmed under exact queues (E1x).
// Oracle at every idle state, for every decided multi-target transaction of the scenario: read every named target with
// the real Get; either every target shows all of the request's values for it, or no target shows any of them; a
// request one of whose targets' models rejects must be FAILED and show nowhere.

type c01Req struct {
	name    string
	ops     []ReqOp
	rejects bool // some target's model rejects this request
}

func (r c01Req) build() SetReqOrCall { return setReq(r.name, r.ops...) }

type c01Scenario struct {
	sc   *Scenario
	reqs []c01Req // all requests incl. prefix ones, by transaction order of submission
}

func c01Verdict(w *World, target string, reject bool) {
	if reject {
		w.plugins[target].SetVerdict(rejectAll)
	}
}

func c01Scenarios(thorough bool) []c01Scenario {
	var out []c01Scenario
	two := func(first, second string) []ReqOp {
		return []ReqOp{upd(first, "/cont/leafA", "x"), upd(first, "/cont/leafA2", "x2"), upd(second, "/cont/leafA", "y")}
	}
	for _, v := range []struct{ r1, r2 bool }{{false, false}, {false, true}, {true, false}, {true, true}} {
		v := v
		for _, order := range [][2]string{{"T1", "T2"}, {"T2", "T1"}} {
			req := c01Req{name: fmt.Sprintf("set(%s,%s)", order[0], order[1]), ops: two(order[0], order[1]), rejects: v.r1 || v.r2}
			crash := 1
			out = append(out, c01Scenario{
				sc: &Scenario{Name: fmt.Sprintf("S1 one Set on %s+%s, model rejects T1:%v T2:%v", order[0], order[1], v.r1, v.r2), Cfg: WorldConfig{Targets: []string{"T1", "T2"}},
					Init:     func(w *World) { c01Verdict(w, "T1", v.r1); c01Verdict(w, "T2", v.r2) },
					Requests: []SetReqOrCall{req.build()}, CrashBudget: crash},
				reqs: []c01Req{req}})
			if order[0] == "T1" {
				// the same Set with one reconcile call split: parked before any of its store calls while the other
				// controller (and the other target's proposal) moves on, then continued with what it had read
				out = append(out, c01Scenario{
					sc: &Scenario{Name: fmt.Sprintf("S1h one Set on T1+T2, model rejects T1:%v T2:%v, one step split", v.r1, v.r2), Cfg: WorldConfig{Targets: []string{"T1", "T2"}},
						Init:     func(w *World) { c01Verdict(w, "T1", v.r1); c01Verdict(w, "T2", v.r2) },
						Requests: []SetReqOrCall{req.build()}, HoldBudget: 1, HoldDepth: 4},
					reqs: []c01Req{req}})
			}
		}
	}
	// neighbours: a valid Set on {T1,T2} and a Set on {T1,T3} that T3's model rejects, in both log orders
	a := c01Req{name: "A=set(T1,T2)", ops: []ReqOp{upd("T1", "/cont/leafA", "a1"), upd("T2", "/cont/leafA", "a2")}}
	b := c01Req{name: "B=set(T1,T3) rejected by T3", ops: []ReqOp{upd("T1", "/cont/leafA2", "b1"), upd("T3", "/cont/leafA", "b3")}, rejects: true}
	for _, ord := range [][]c01Req{{a, b}, {b, a}} {
		ord := ord
		out = append(out, c01Scenario{
			sc: &Scenario{Name: fmt.Sprintf("S3 neighbours %s then %s", ord[0].name, ord[1].name), Cfg: WorldConfig{Targets: []string{"T1", "T2", "T3"}},
				Init:     func(w *World) { c01Verdict(w, "T3", true) },
				Requests: []SetReqOrCall{ord[0].build(), ord[1].build()}},
			reqs: ord})
	}
	// the rejecting model is the SHARED target's: the neighbour's proposal on T1 follows a proposal that itself failed
	// validation (value-dependent verdict: T1 rejects leafA2=bad only)
	br := c01Req{name: "B=set(T1,T3) rejected by T1", ops: []ReqOp{upd("T1", "/cont/leafA2", "bad"), upd("T3", "/cont/leafA", "b3")}, rejects: true}
	out = append(out, c01Scenario{
		sc: &Scenario{Name: "S3r neighbours: set(T1,T3) rejected by the shared target T1, then A=set(T1,T2)", Cfg: WorldConfig{Targets: []string{"T1", "T2", "T3"}},
			Init: func(w *World) {
				w.plugins["T1"].SetVerdict(rejectIf(func(f map[string]string) bool { return f["/cont/leafA2"] == "bad" }, "leafA2 must not be bad"))
			},
			Requests: []SetReqOrCall{br.build(), a.build()}},
		reqs: []c01Req{br, a}})
	// three overlapping Sets: T1 alone, an unrelated target, then T1+T2 (the chain of T1's proposals must be in log order
	// although the direct predecessor of the third names other targets)
	t1 := c01Req{name: "set(T1)", ops: []ReqOp{upd("T1", "/cont/leafA", "one")}}
	t3 := c01Req{name: "set(T3)", ops: []ReqOp{upd("T3", "/cont/leafA", "two")}}
	t12 := c01Req{name: "set(T1,T2)", ops: []ReqOp{upd("T1", "/cont/leafA2", "three"), upd("T2", "/cont/leafA", "three")}}
	out = append(out, c01Scenario{
		sc: &Scenario{Name: "S3t three overlapping Sets: set(T1), set(T3), set(T1,T2)", Cfg: WorldConfig{Targets: []string{"T1", "T2", "T3"}},
			Requests: []SetReqOrCall{t1.build(), t3.build(), t12.build()}, MaxStates: 400000},
		reqs: []c01Req{t1, t3, t12}})
	// a valid multi-target Set after a rejected one on a shared target (non-initial start state), with a crash
	out = append(out, c01Scenario{
		sc: &Scenario{Name: "S3p rejected set(T1,T3) in the past, then set(T1,T2)", Cfg: WorldConfig{Targets: []string{"T1", "T2", "T3"}},
			Init:     func(w *World) { c01Verdict(w, "T3", true) },
			Prefix:   []func(w *World) *Call{func(w *World) *Call { return w.GoSet(bgCtx(), b.build().Set) }},
			Requests: []SetReqOrCall{a.build()}, CrashBudget: 1},
		reqs: []c01Req{b, a}})
	return out
}

// c01Shows reports how many of the request's values for a target are readable there (present / total).
func c01Shows(w *World, target string, ops []ReqOp) (present, total int, got map[string]string) {
	got, err := w.GetProto(GetQuery{Target: target})
	if err != nil {
		got = map[string]string{}
	}
	for _, o := range ops {
		if o.Target != target || o.Kind == "delete" {
			continue
		}
		total++
		if got[o.Path] == c17Norm(o.value()) {
			present++
		}
	}
	return
}

func c01Targets(ops []ReqOp) []string {
	set := map[string]bool{}
	for _, o := range ops {
		set[o.Target] = true
	}
	var l []string
	for t := range set {
		l = append(l, t)
	}
	sort.Strings(l)
	return l
}

// c01Oracle evaluates the property on the world as it stands (idle). It returns a violation class and text or "".
func c01Oracle(w *World, reqs []c01Req) (string, string) {
	v := w.View()
	for i, r := range reqs {
		tx := v.Tx(configapi.Index(i + 1))
		if tx == nil {
			continue
		}
		decided := tx.Status.State >= configapi.TransactionStatus_COMMITTED
		if !decided {
			continue
		}
		failed := tx.Status.State == configapi.TransactionStatus_FAILED && tx.Status.Phases.Commit == nil
		var all, none []string
		var detail []string
		for _, t := range c01Targets(r.ops) {
			p, n, got := c01Shows(w, t, r.ops)
			detail = append(detail, fmt.Sprintf("%s shows %d of %d (%v)", t, p, n, got))
			if p == n {
				all = append(all, t)
			}
			if p == 0 {
				none = append(none, t)
			}
		}
		nt := len(c01Targets(r.ops))
		text := fmt.Sprintf("request %q (transaction %d, %s, failure %s): %s", r.name, i+1, tx.Status.State, failText(tx.Status.Failure), strings.Join(detail, "; "))
		if len(all) != nt && len(none) != nt {
			return "partial-commit", text
		}
		if r.rejects && !(tx.Status.State == configapi.TransactionStatus_FAILED) {
			return "rejected-request-not-failed", text
		}
		if r.rejects && len(none) != nt {
			return "rejected-request-altered-configuration", text
		}
		if failed && len(none) != nt {
			return "failed-request-altered-configuration", text
		}
		if !r.rejects && !failed && len(all) != nt {
			return "accepted-request-not-committed-everywhere", text
		}
	}
	return "", ""
}

func checkC01(rc *RunCtx) *Report {
	rep := newReport("model_checking")
	scs := c01Scenarios(rc.Thorough())
	var plain []*Scenario
	for _, s := range scs {
		plain = append(plain, s.sc)
	}
	if rc.Replay != "" {
		replayE1(rc, rep, plain)
		return rep
	}
	nums, extra := runSharded(rc, rep, len(scs), func(sh Shard, rep *Report) *ShardResult {
		out := newShardResult()
		for i, cs := range scs {
			sc := cs.sc
			if !sh.Mine(i) || (os.Getenv("VERIF_ONLY") != "" && !strings.Contains(sc.Name, os.Getenv("VERIF_ONLY"))) {
				continue
			}
			cs := cs
			sc.Mode = QAny
			// the order of a request's targets inside the transaction controller (map iteration over Change.Values,
			// Status.Proposals built in that order) is explored too
			sc.MapOrderDeviations = true
			if sc.MaxStates == 0 {
				sc.MaxStates = 600000
			}
			x := &Explorer{RC: rc, Rep: rep, Sc: sc}
			cands := newCandidates(false)
			evals, decided := 0, 0
			outcomes := hashSet{}
			x.Hooks.OnState = func(x *Explorer, s *E1State) {
				w := x.W
				w.Restore(s.snap)
				evals++
				cl, text := c01Oracle(w, cs.reqs)
				v := w.View()
				o := ""
				for _, t := range v.Txs {
					o += t.Status.State.String() + " "
					if t.Status.State >= configapi.TransactionStatus_COMMITTED {
						decided++
					}
				}
				outcomes.Add(sc.Name + o)
				if cl != "" {
					cands.consider(x, rep, sc, s, cl, fmt.Sprintf("scenario %q: %s", sc.Name, text), func(w *World) (bool, string) {
						c2, t2 := c01Oracle(w, cs.reqs)
						return c2 == cl, t2
					})
				}
			}
			x.Run()
			cands.resolve(x, rep, sc)
			if n, diff := x.ValidateOnRealAtomix(envInt("VERIF_VALIDATE", 3)); diff != "" {
				rep.HarnessErr = "trace validation on the real atomix runtime: " + diff
			} else {
				out.Numbers["traces_validated"] += int64(n)
			}
			out.Numbers["states"] += int64(x.States)
			out.Numbers["transitions"] += int64(x.Transitions)
			out.Numbers["split_steps"] += int64(x.Splits)
			out.Numbers["map_order_deviations"] += int64(x.MapDeviations)
			out.Numbers["idle_states"] += int64(x.IdleStates)
			out.Numbers["oracle_evaluations"] += int64(evals)
			out.Numbers["decided_transactions_seen"] += int64(decided)
			out.Numbers["candidates"] += int64(cands.total)
			out.Numbers["unconfirmed_candidates"] += int64(cands.unconfirmed)
			out.Distinct["idle_outcomes"] = append(out.Distinct["idle_outcomes"], outcomes.List()...)
			if x.Capped {
				rep.Exhaustive = false
			}
			if len(cands.notes) > 0 {
				out.Extra["unconfirmed: "+sc.Name] = cands.notes
			}
			out.Extra[sc.Name] = map[string]interface{}{"states": x.States, "transitions": x.Transitions, "idle_states": x.IdleStates, "max_depth": x.MaxDepth, "capped": x.Capped}
		}
		return out
	})
	e1Coverage(rep, nums, extra)
	return rep
}

// e1Coverage fills the common coverage keys of an E1 check.
func e1Coverage(rep *Report, nums map[string]int64, extra map[string]interface{}) {
	rep.Coverage["scenarios"] = extra
	names := make([]string, 0, len(extra))
	for name := range extra {
		names = append(names, name)
	}
	sort.Strings(names)
	for _, name := range names {
		fmt.Printf("  %-70s %v\n", name, extra[name])
	}
	for k, v := range nums {
		if strings.HasPrefix(k, "distinct:") {
			rep.Coverage["distinct_"+strings.TrimPrefix(k, "distinct:")] = v
		} else {
			rep.Coverage[k] = v
		}
	}
	if _, ok := rep.Coverage["traces_validated_against_impl"]; !ok {
		rep.Coverage["traces_validated_against_impl"] = nums["traces_validated"]
	}
	rep.Sample(4, map[string]interface{}{"scenarios": names})
}

func init() { registerBubble("C01", checkC01) }
