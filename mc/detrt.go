package mc

import _ "unsafe" // the functions below are pushed from the patched runtime (see /verif/detrt/gen.py)

func detrtSetDet(on bool, r uint64)
func detrtSetPrefix(i int, p string)
func detrtBegin(offs []uint8)
func detrtEnd() int
func detrtObserved(i int) (string, int)

// steerPrefixes are the functions whose map iterations the explorer owns: controllers, northbound handlers and
// the utility packages they call. Store dispatchers (pkg/store) are left alone: the order in which a store serves
// its watchers only permutes token arrival, which the work-set exploration permutes anyway.
var steerPrefixes = []string{
	"github.com/onosproject/onos-config/pkg/controller/",
	"github.com/onosproject/onos-config/pkg/northbound/",
	"github.com/onosproject/onos-config/pkg/utils/",
}

func init() {
	for i, p := range steerPrefixes {
		detrtSetPrefix(i, p)
	}
}

// MapSite is one steered map iteration observed during a step.
type MapSite struct {
	Func string `json:"func"`
	Len  int    `json:"len"`
}

// withMapOrder runs f with the given iteration start offsets for the steered map iterations (offset i applies to
// the i-th steered iteration; missing offsets are 0) and returns the iterations that happened.
func withMapOrder(offs []uint8, f func()) []MapSite {
	detrtBegin(offs)
	f()
	n := detrtEnd()
	if n > 512 {
		n = 512
	}
	sites := make([]MapSite, n)
	for i := 0; i < n; i++ {
		fn, l := detrtObserved(i)
		sites[i] = MapSite{Func: fn, Len: l}
	}
	return sites
}
