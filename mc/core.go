package mc

import (
	"testing"
	"time"
)

// CheckFunc runs one property check and returns its report.
type CheckFunc func(rc *RunCtx) *Report

// RunCtx carries the parameters of one invocation.
type RunCtx struct {
	T        *testing.T
	ID       string
	Tier     string
	Seed     int64
	Root     string
	Replay   string
	Worker   string
	Out      string
	Deadline time.Time
	Start    time.Time
	// stage counts the runSharded calls of this invocation: a check may have several sharded stages, and a worker
	// process ("-worker i/n@stage") runs the body of its own stage only
	stage int
}

// Thorough reports whether the thorough tier was requested.
func (rc *RunCtx) Thorough() bool { return rc.Tier == "thorough" }

// Expired reports whether the internal deadline has passed.
func (rc *RunCtx) Expired() bool { return !rc.Deadline.IsZero() && realNow().After(rc.Deadline) }

var registry = map[string]CheckFunc{}

// needsBubble lists the checks whose body must run inside a testing/synctest bubble.
var needsBubble = map[string]bool{}

func register(id string, f CheckFunc) { registry[id] = f }

func registerBubble(id string, f CheckFunc) { registry[id] = f; needsBubble[id] = true }
