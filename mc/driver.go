package mc

import (
	"context"
	"fmt"
	"os"
	"runtime/debug"
	"strings"
	"testing/synctest"

	"github.com/onosproject/onos-config/pkg/utils"
	"github.com/openconfig/gnmi/proto/gnmi"
)

// Call is one northbound request in flight.
type Call struct {
	Done   bool
	reaped bool
	Resp   interface{}
	Err    error
	Panic  string
	cancel context.CancelFunc
}

// Cancel cancels the caller's context.
func (c *Call) Cancel() { c.cancel() }

// GoSet submits a Set through the real handler on its own goroutine (the handler blocks until answered).
func (w *World) GoSet(ctx context.Context, req *gnmi.SetRequest) *Call {
	ctx, cancel := context.WithCancel(ctx)
	c := &Call{cancel: cancel}
	go func() {
		defer func() {
			if r := recover(); r != nil {
				c.Panic = notePanic(r)
			}
			c.Done = true
		}()
		c.Resp, c.Err = w.gnmi.Set(ctx, req)
	}()
	w.calls = append(w.calls, c)
	synctest.Wait()
	w.ReapCalls()
	return c
}

// Drain runs pending tokens oldest-first (the default schedule) until no token is left or maxSteps steps ran.
// It returns the number of steps and the leftover queue.
func (w *World) Drain(queue []Token, maxSteps int, onStep func(t Token, r StepResult)) (int, []Token) {
	steps := 0
	for len(queue) > 0 && steps < maxSteps {
		t := queue[0]
		queue = queue[1:]
		r := w.Step(t.Ctrl, t.ID)
		steps++
		if onStep != nil {
			onStep(t, r)
		}
		queue = append(queue, r.Tokens...)
	}
	return steps, queue
}

func utilsParse(s string) (*gnmi.Path, error) {
	return utils.ParseGNMIElements(utils.SplitPath(s))
}

// ReapCalls cancels the context of every call whose handler has returned, as the gRPC server does. It is done at
// quiescent points only (the race between that cancellation and a further event is explored by the C08/C15 checks).
func (w *World) ReapCalls() {
	reaped := false
	live := w.calls[:0]
	for _, c := range w.calls {
		if c.Done && !c.reaped {
			c.reaped = true
			c.cancel()
			reaped = true
		}
		if !c.Done {
			live = append(live, c)
		}
	}
	w.calls = live
	if reaped {
		synctest.Wait()
	}
}

// lastPanicSite is the innermost onos-config function on the stack of the most recent recovered panic.
var lastPanicSite string

// notePanic renders a recovered panic and remembers where in onos-config it was raised.
func notePanic(r interface{}) string {
	lastPanicSite = ""
	seenPanic := false
	if os.Getenv("VERIF_PANIC_STACK") != "" {
		fmt.Printf("PANIC %v\n%s\n", r, debug.Stack())
	}
	for _, l := range strings.Split(string(debug.Stack()), "\n") {
		if strings.HasPrefix(l, "panic(") {
			seenPanic = true
			continue
		}
		if seenPanic && strings.HasPrefix(l, "github.com/onosproject/onos-config/") {
			f := strings.TrimPrefix(l, "github.com/onosproject/onos-config/")
			if i := strings.LastIndex(f, "("); i > 0 {
				f = f[:i]
			}
			lastPanicSite = f
			break
		}
	}
	return fmt.Sprint(r)
}

func bgCtx() context.Context { return context.Background() }

func envInt(name string, def int) int {
	if v := os.Getenv(name); v != "" {
		var n int
		if _, err := fmt.Sscan(v, &n); err == nil && n > 0 {
			return n
		}
	}
	return def
}
