package mc

import (
	"context"
	"fmt"

	"github.com/openconfig/gnmi/proto/gnmi"
)

func gpath(target string, s string) *gnmi.Path {
	p := mustPath(s)
	p.Target = target
	return p
}

func gstr(v string) *gnmi.TypedValue {
	return &gnmi.TypedValue{Value: &gnmi.TypedValue_StringVal{StringVal: v}}
}

func checkSmoke(rc *RunCtx) *Report {
	rep := newReport("other")
	w := NewWorld(WorldConfig{Targets: []string{"T1", "T2"}})
	q := w.TakeTokens()
	fmt.Printf("initial tokens: %d\n", len(q))
	n, q := w.Drain(q, 1000, nil)
	fmt.Printf("initial drain: %d steps, %d left\n%s\n", n, len(q), w.Canon())
	for _, t := range []string{"T1", "T2"} {
		w.conns.SetReachable("T1", true)
		_ = t
	}
	w.conns.SetReachable("T2", true)
	q = append(q, w.Settle()...)
	n, q = w.Drain(q, 1000, nil)
	fmt.Printf("after conn up: %d steps\n%s\n", n, w.Canon())
	call := w.GoSet(context.Background(), &gnmi.SetRequest{Update: []*gnmi.Update{
		{Path: gpath("T1", "/cont/leafA"), Val: gstr("x")},
		{Path: gpath("T2", "/cont/leafA2"), Val: gstr("y")},
	}})
	q = append(q, w.Settle()...)
	start := realNow()
	n, q = w.Drain(q, 10000, func(t Token, r StepResult) {
		fmt.Printf("  step %-6s %-22s eff=%d err=%q tokens=%d %v\n", t.Ctrl, t.ID, r.Effects, r.Err, len(r.Tokens), r.Writes)
	})
	fmt.Printf("set drain: %d steps in %v, left %d; call done=%v err=%v resp=%v\n%s\n", n, realNow().Sub(start), len(q), call.Done, call.Err, call.Resp, w.Canon())
	rep.Coverage["explanation"] = "smoke test"
	return rep
}

func init() { registerBubble("smoke", checkSmoke) }

func mustPath(s string) *gnmi.Path {
	p, err := parsePath(s)
	if err != nil {
		panic(err)
	}
	return p
}

func parsePath(s string) (*gnmi.Path, error) {
	return utilsParse(s)
}
