package mc

import (
	"bytes"
	"context"
	"encoding/json"
	"fmt"
	"strings"

	"github.com/openconfig/gnmi/proto/gnmi"
)

// C17, journey part (E3h): typed values through the real stack – Set handler, stores, controllers, model plugin
// document, southbound Set, Get in PROTO and JSON – on the typed leaves of model mini. For every leaf every ordered pair
// (v1, v2) of its value list is set one after the other (a value must also survive when it replaces one that differs from
// it only in sign, decimal point position or element boundaries), and after each Set:
//   the value returned by Get (PROTO), the value the device holds and the value in the device's request equal the value
//   set; the model plugin's document carries it with the RFC 7951 JSON type and digits; the JSON Get agrees with that
//   document.
// Kinds with recorded findings in the pure part (float32, negative decimals between -1 and 0, decimal / bytes leaf-lists)
// are left to the pure part, so that this part only reports what the journey adds.

type c17Leaf struct {
	Path   string
	Kind   string // as c17Case.Kind
	Width  int
	Values [][]string // each value: the textual scalar(s)
	Prec   []uint32   // decimal: precision per value
}

var c17Leaves = []c17Leaf{
	{Path: "/cont/i8", Kind: "int", Width: 8, Values: [][]string{{"100"}, {"-100"}, {"-128"}, {"127"}, {"0"}, {"-1"}, {"1"}}},
	{Path: "/cont/i64", Kind: "int", Width: 64, Values: [][]string{{"9223372036854775807"}, {"-9223372036854775807"}, {"-9223372036854775808"}, {"0"}, {"-1"}, {"1"}}},
	{Path: "/cont/u64", Kind: "uint", Width: 64, Values: [][]string{{"0"}, {"1"}, {"9223372036854775808"}, {"18446744073709551615"}, {"256"}}},
	{Path: "/cont/sub/leafB", Kind: "uint", Width: 32, Values: [][]string{{"0"}, {"1"}, {"4294967295"}, {"65536"}}},
	{Path: "/cont/dec", Kind: "decimal", Values: [][]string{{"125"}, {"125"}, {"-125"}, {"0"}, {"12500"}}, Prec: []uint32{1, 2, 2, 2, 2}},
	{Path: "/cont/b", Kind: "bool", Values: [][]string{{"true"}, {"false"}}},
	{Path: "/cont/by", Kind: "bytes", Values: [][]string{{""}, {"AA=="}, {"AQA="}, {"/w=="}, {"AAE="}}},
	{Path: "/cont/llu", Kind: "list-uint", Width: 64, Values: [][]string{{"1", "2"}, {"258"}, {"0"}, {"1"}, {"9223372036854775808", "1"}, {"2", "1"}}},
	{Path: "/cont/ll", Kind: "list-string", Values: [][]string{{"a", "b"}, {"ab"}, {"b", "a"}, {""}}},
	{Path: "/cont/leafA", Kind: "string", Values: [][]string{{""}, {"a"}, {"é☃"}, {"-1"}}},
}

func (l c17Leaf) tv(i int) *gnmi.TypedValue {
	c := c17Case{Kind: l.Kind, Width: l.Width, Elems: l.Values[i]}
	if l.Prec != nil {
		c.Prec = l.Prec[i]
	}
	return c.gnmi()
}

// c17DocValue walks a decoded JSON document to the value at an (unkeyed) absolute path.
func c17DocValue(doc []byte, path string) (interface{}, bool) {
	dec := json.NewDecoder(bytes.NewReader(doc))
	dec.UseNumber()
	var cur interface{}
	if err := dec.Decode(&cur); err != nil {
		return nil, false
	}
	for _, e := range strings.Split(strings.TrimPrefix(path, "/"), "/") {
		m, ok := cur.(map[string]interface{})
		if !ok {
			return nil, false
		}
		if cur, ok = m[e]; !ok {
			return nil, false
		}
	}
	return cur, true
}

func c17Journeys(rc *RunCtx, rep *Report) {
	hw := NewHistWorld(WorldConfig{Targets: []string{"T1"}}, true)
	w := hw.W
	base := w.Snapshot()
	evals, journeys := 0, 0
	distinct := map[string]bool{}
	only := ""
	if rc.Replay != "" {
		_ = loadReplay(rc.Replay, "journey", &only)
	}
	for _, l := range c17Leaves {
		for i := range l.Values {
			for j := -1; j < len(l.Values); j++ {
				if i == j || rc.Expired() {
					continue
				}
				// j = -1: v_i alone; otherwise v_j first, then v_i
				seq := []int{i}
				if j >= 0 {
					seq = []int{j, i}
				}
				name := fmt.Sprintf("%s %v", l.Path, seq)
				if only != "" && only != name {
					continue
				}
				journeys++
				w.Restore(base)
				for step, vi := range seq {
					v := l.tv(vi)
					want := c17Norm(v)
					p := mustPath(l.Path)
					p.Target = "T1"
					res := hw.ExecSet(context.Background(), &gnmi.SetRequest{Update: []*gnmi.Update{{Path: p, Val: v}}}, nil)
					evals++
					what := fmt.Sprintf("leaf %s (%s, width %d): Set %s", l.Path, l.Kind, l.Width, want)
					if step == 1 {
						what += fmt.Sprintf(" after %s", c17Norm(l.tv(seq[0])))
					}
					replay := map[string]interface{}{"kind": "c17-journey", "journey": name}
					fail := func(class, text string) {
						if step == 1 {
							class += "/replacing-a-value"
						}
						rep.Violate("journey/"+class+"/"+l.Kind, what+": "+text, replay)
					}
					if !res.Done || res.Err != nil || len(res.Panics) > 0 || !res.Idle {
						fail("set-not-accepted", fmt.Sprintf("done=%v err=%v panics=%v idle=%v", res.Done, res.Err, res.Panics, res.Idle))
						break
					}
					distinct[l.Path+want] = true
					got, err := w.GetProto(GetQuery{Target: "T1"})
					if err != nil || got[l.Path] != want {
						fail("proto-get", fmt.Sprintf("Get (PROTO) returns %q (err %v)", got[l.Path], err))
					}
					if dev := w.devices["T1"].Content()[l.Path]; dev != want {
						fail("device", fmt.Sprintf("the device holds %q", dev))
					}
					sent := ""
					for _, rq := range res.DevLog["T1"] {
						for _, u := range rq.Updates {
							if strings.HasPrefix(u, l.Path+"=") {
								sent = strings.TrimPrefix(u, l.Path+"=")
							}
						}
					}
					if sent != want {
						fail("device-request", fmt.Sprintf("the southbound request carried %q", sent))
					}
					docs := res.Docs["T1"]
					if len(docs) == 0 {
						fail("plugin-document", "the model plugin saw no document")
						continue
					}
					doc := docs[len(docs)-1].Doc
					js, ok := c17DocValue(doc, l.Path)
					if !ok {
						fail("plugin-document", fmt.Sprintf("the document has no value at the leaf: %s", oneLine(string(doc))))
						continue
					}
					prec := uint32(0)
					if l.Prec != nil {
						prec = l.Prec[vi]
					}
					base := strings.TrimPrefix(l.Kind, "list-")
					if strings.HasPrefix(l.Kind, "list-") {
						arr, isArr := js.([]interface{})
						if !isArr || len(arr) != len(l.Values[vi]) {
							fail("plugin-document", fmt.Sprintf("leaf-list rendered as %v", js))
						} else {
							for k, e := range arr {
								if cl, text := c17ExpectJSON(base, l.Width, prec, l.Values[vi][k], e); cl != "" {
									fail("plugin-document/"+cl, text)
								}
							}
						}
					} else if !(base == "decimal" && strings.HasPrefix(l.Values[vi][0], "-") && len(strings.TrimPrefix(l.Values[vi][0], "-")) <= int(prec)) {
						if cl, text := c17ExpectJSON(base, l.Width, prec, l.Values[vi][0], js); cl != "" {
							fail("plugin-document/"+cl, text+"; document "+oneLine(string(doc)))
						}
					}
					// the JSON Get and the plugin's document are the same rendering
					flatDoc, _, err1 := flattenMiniDoc(doc)
					flatGet, _, err2 := w.GetJSON(GetQuery{Target: "T1"})
					if err1 != nil || err2 != nil || flatDoc[l.Path] != flatGet[l.Path] {
						fail("json-get", fmt.Sprintf("Get (JSON) gives %q, the plugin's document %q (errors %v %v)", flatGet[l.Path], flatDoc[l.Path], err1, err2))
					}
				}
			}
		}
	}
	rep.Coverage["journeys"] = journeys
	rep.Coverage["journey_sets"] = evals
	rep.Coverage["journey_distinct_values_accepted"] = len(distinct)
	rep.Coverage["journey_rule"] = fmt.Sprintf("%d typed leaves of model mini (int8/int64/uint32/uint64/decimal64/bool/bytes/string, uint and string leaf-lists); for every leaf every value alone and every ordered pair of different values set one after the other through the real Set handler, stores, controllers, plugin registry and southbound client; after each Set: PROTO Get = device content = southbound request = value set, plugin document has the RFC 7951 type and digits, JSON Get = plugin document", len(c17Leaves))
}
