package mc

import (
	"context"
	"fmt"
	"os"
	"strings"
	"testing/synctest"
)

// E1x – confirmation of a candidate found in an abstraction (work-set or any-time model) under the exact queue
// discipline of the controller runtime: one FIFO per watcher, arbitrary merge between watchers, a bag per controller
// for Requeue results and retries; a crash drops everything and the restarted watchers replay.
//
// The search runs in the exact model but is restricted to the candidate's cone: world contents (stores, topo,
// devices, connections) from which the violating content is reachable in the abstraction's own graph. What a
// (controller, id) does in a given world content – nothing, or a move to another content, and which tokens it
// produces – is obtained by running the real reconciler on the restored content and memoised, so expanding a node of
// the queue-level search costs no execution. The search is best-first on the abstract distance to the target.
// A schedule that is found is then executed for real, start to end, with the queues rebuilt from the real watchers'
// tokens and every choice checked for availability: only that final run decides.

// ConfirmOpts says what must hold at the end of the exact schedule.
type ConfirmOpts struct {
	NeedIdle bool                          // the violation is about an idle state: the exact schedule must end with empty queues
	Check    func(w *World) (bool, string) // evaluated on the real world at the end of the real run
	// ThenStep: the violation shows in a transition: after reaching the candidate's content this token must be
	// available under the exact discipline; the real run executes it and CheckStep judges what it did.
	ThenStep  *Trans
	CheckStep func(w *World, before *StoreView, res *StepResult) (bool, string)
	MaxNodes  int
}

// Confirmation is the outcome.
type Confirmation struct {
	Confirmed bool
	Schedule  []Trans // exact schedule
	Detail    string
	Nodes     int
	Reason    string // why not confirmed
}

type xResult struct {
	effects int
	succ    uint64 // world content after the action
	tokens  []Token
	resets  bool
	ok      bool // the action was possible
}

type xSearch struct {
	x        *Explorer
	memo     map[string]xResult
	dist     map[uint64]int // abstract distance to the target content (cone membership)
	nodes    int
	deadMemo map[string]bool
	consMemo map[string]bool
}

// act performs an action for real on the given world content (memoised).
func (xs *xSearch) act(store uint64, env Env, tr Trans) xResult {
	k := fmt.Sprintf("%d|%s|%s|%s|%d|%s|%d|%v", store, tr.Kind, tr.Ctrl, tr.ID, tr.K, tr.Fault, env.NextReq, tr.Map)
	if r, ok := xs.memo[k]; ok {
		return r
	}
	x := xs.x
	w := x.W
	snap := x.contentSnap[store]
	if snap == nil {
		panic("e1x: no snapshot for content")
	}
	w.Restore(snap)
	var r xResult
	switch tr.Kind {
	case "step":
		res := w.stepT(tr)
		r = xResult{effects: res.Effects, tokens: res.Tokens, ok: true}
		if res.Panic != "" {
			r.effects = 1
		}
	case "crash":
		w.fuse.Arm(tr.K)
		_ = w.Step(tr.Ctrl, tr.ID)
		r = xResult{effects: 1, tokens: w.Restart(), resets: true, ok: true}
	case "hold":
		// first half of a split step: always a move (the successor differs at least in the held call)
		if hres, reached := w.Hold(tr.Ctrl, tr.ID, tr.K); reached {
			r = xResult{effects: 1, tokens: hres.Tokens, ok: true}
		}
	case "restart":
		w.fuse.Kill()
		r = xResult{effects: 1, tokens: w.Restart(), resets: true, ok: true}
	case "client":
		if env.NextReq < len(x.Sc.Requests) {
			rq := x.Sc.Requests[env.NextReq]
			var call *Call
			if rq.Set != nil {
				call = w.GoSet(context.Background(), rq.Set)
			} else {
				call = rq.Call(w)
			}
			toks := w.Settle()
			if !call.Done {
				call.Cancel()
				toks = append(toks, w.Settle()...)
			}
			r = xResult{effects: 1, tokens: toks, ok: true}
		}
	case "fault":
		for _, f := range x.Sc.Faults {
			if f.Name == tr.Fault {
				if f.Enabled != nil && !f.Enabled(w, env) {
					break
				}
				f.Apply(w)
				r = xResult{effects: 1, tokens: w.Settle(), ok: true}
			}
		}
	}
	if r.ok && r.effects > 0 {
		canon := w.Canon()
		r.succ = hash64(canon)
		if _, known := x.contentSnap[r.succ]; !known {
			x.contentSnap[r.succ] = w.Snapshot()
		}
	} else {
		r.succ = store
	}
	xs.memo[k] = r
	return r
}

// actRelease performs the second half of a split step for the search: the step is started on the content it began
// in and parked at its hold point, the moves made since are executed for real on that world (so that every version
// the step remembers is consistent with what it finds), and the step continues.
func (xs *xSearch) actRelease(begin uint64, env Env, ctrl, id string, k int, moves []Trans) xResult {
	key := fmt.Sprintf("release|%d|%s|%s|%d|%d|%v", begin, ctrl, id, k, env.NextReq, schedStrings(moves))
	if r, ok := xs.memo[key]; ok {
		return r
	}
	x := xs.x
	w := x.W
	w.Restore(x.contentSnap[begin])
	nextReq := env.NextReq
	for _, m := range moves {
		if m.Kind == "client" {
			nextReq--
		}
	}
	res, reached := w.StepSplit(ctrl, id, k, func() {
		for _, m := range moves {
			switch m.Kind {
			case "step":
				w.reconcileOnce(m.Ctrl, m.ID)
				synctest.Wait()
			case "client":
				rq := x.Sc.Requests[nextReq]
				nextReq++
				var call *Call
				if rq.Set != nil {
					call = w.GoSet(context.Background(), rq.Set)
				} else {
					call = rq.Call(w)
				}
				synctest.Wait()
				if !call.Done {
					call.Cancel()
					synctest.Wait()
				}
			case "fault":
				for _, f := range x.Sc.Faults {
					if f.Name == m.Fault {
						f.Apply(w)
						synctest.Wait()
					}
				}
			}
		}
		synctest.Wait()
		w.ReapCalls()
		w.TakeTokens()
		w.fuse.ResetEffects()
	})
	var r xResult
	if reached {
		r = xResult{effects: 1, tokens: res.Tokens, ok: true}
		canon := w.Canon()
		r.succ = hash64(canon)
		if _, known := x.contentSnap[r.succ]; !known {
			x.contentSnap[r.succ] = w.Snapshot()
		}
	}
	xs.memo[key] = r
	return r
}

func exactAvail(queues map[string][]string) []Trans {
	return choices(QExact, queues)
}

// dead tells whether token (ctrl,id) can never do anything again from the given content on: it has no effect and
// produces no token in this content and in every content reachable from it inside the cone. Dead tokens cannot block a
// FIFO (they can be consumed whenever they reach its head) and cannot wake anything, so the search drops them.
func (xs *xSearch) dead(content uint64, ctrl, id string, onStack map[uint64]bool) bool {
	k := fmt.Sprintf("%d|%s|%s", content, ctrl, id)
	if v, ok := xs.deadMemo[k]; ok {
		return v
	}
	if onStack[content] {
		return true // greatest fixed point over cycles
	}
	r := xs.act(content, Env{}, Trans{Kind: "step", Ctrl: ctrl, ID: id})
	if r.effects > 0 || len(r.tokens) > 0 {
		xs.deadMemo[k] = false
		return false
	}
	onStack[content] = true
	res := true
	for succ := range xs.x.contentEdges[content] {
		if _, inCone := xs.dist[succ]; !inCone {
			continue
		}
		if !xs.dead(succ, ctrl, id, onStack) {
			res = false
			break
		}
	}
	delete(onStack, content)
	xs.deadMemo[k] = res
	return res
}

// consumable tells whether token (ctrl,id), pending in the given content, can still be consumed on some way to the
// target: in this content or in a later one of the cone it has no effect or its effect stays inside the cone. A node
// holding a token that is not consumable can never become the target with empty queues and is pruned.
func (xs *xSearch) consumable(content uint64, ctrl, id string, onStack map[uint64]bool) bool {
	k := fmt.Sprintf("%d|%s|%s", content, ctrl, id)
	if v, ok := xs.consMemo[k]; ok {
		return v
	}
	if onStack[content] {
		return false
	}
	r := xs.act(content, Env{}, Trans{Kind: "step", Ctrl: ctrl, ID: id})
	if r.effects == 0 {
		xs.consMemo[k] = true
		return true
	}
	if _, inCone := xs.dist[r.succ]; inCone {
		xs.consMemo[k] = true
		return true
	}
	onStack[content] = true
	res := false
	for succ := range xs.x.contentEdges[content] {
		if _, inCone := xs.dist[succ]; !inCone {
			continue
		}
		if xs.consumable(succ, ctrl, id, onStack) {
			res = true
			break
		}
	}
	delete(onStack, content)
	xs.consMemo[k] = res
	return res
}

// normalize drops the tokens that are dead in the given content.
func (xs *xSearch) normalize(content uint64, queues map[string][]string) map[string][]string {
	out := make(map[string][]string, len(queues))
	for k, q := range queues {
		var nq []string
		for _, item := range q {
			p := strings.SplitN(item, "|", 2)
			if xs.dead(content, p[0], p[1], map[uint64]bool{}) {
				continue
			}
			// bags (sorted) keep at most two copies of an item in the search; FIFOs are kept exactly. The deciding
			// real run keeps every token and consumes the surplus itself.
			if strings.HasPrefix(k, "rq:") && len(nq) > 1 && nq[len(nq)-1] == item && nq[len(nq)-2] == item {
				continue
			}
			nq = append(nq, item)
		}
		if len(nq) > 0 {
			out[k] = nq
		}
	}
	return out
}

// ConfirmExact looks for a schedule of the exact queue model that ends in the candidate state's world content (with
// nothing but dead tokens left if NeedIdle) and runs it for real.
func (x *Explorer) ConfirmExact(target *E1State, opts ConfirmOpts) *Confirmation {
	if opts.MaxNodes == 0 {
		opts.MaxNodes = envInt("VERIF_E1X_NODES", 300000)
	}
	xs := &xSearch{x: x, memo: map[string]xResult{}, dist: map[uint64]int{}, deadMemo: map[string]bool{}, consMemo: map[string]bool{}}
	// the cone: backward reachability in the abstraction's content graph
	rev := map[uint64][]uint64{}
	for from, tos := range x.contentEdges {
		for to := range tos {
			rev[to] = append(rev[to], from)
		}
	}
	xs.dist[target.content] = 0
	frontier := []uint64{target.content}
	for len(frontier) > 0 {
		var next []uint64
		for _, c := range frontier {
			for _, p := range rev[c] {
				if _, ok := xs.dist[p]; !ok {
					xs.dist[p] = xs.dist[c] + 1
					next = append(next, p)
				}
			}
		}
		frontier = next
	}
	// split steps: only the holds of the candidate's own trace are tried (the search looks for an exact-queue
	// schedule of the same violation, not for another way of splitting steps)
	allowedHolds := map[string]bool{}
	for _, t := range target.Trace() {
		if t.Kind == "hold" {
			allowedHolds[fmt.Sprintf("%s|%s|%d", t.Ctrl, t.ID, t.K)] = true
		}
	}
	// map-order deviations: likewise only those of the candidate's own trace
	mapVariants := map[string][][]uint8{}
	for _, t := range target.Trace() {
		if t.Kind == "step" && len(t.Map) > 0 {
			mapVariants[t.Ctrl+"|"+t.ID] = append(mapVariants[t.Ctrl+"|"+t.ID], t.Map)
		}
	}
	c := &Confirmation{}
	if _, ok := xs.dist[x.init.content]; !ok {
		c.Reason = "initial content not in the cone (internal error)"
		return c
	}
	sc := x.Sc
	type pnode struct {
		store  uint64
		queues map[string][]string
		env    Env
		parent *pnode
		via    Trans
		depth  int
		prio   int
		held   []Trans // split steps: the moves made since the hold (env.Held != "")
	}
	visited := map[string]bool{}
	var hp []*pnode
	push := func(n *pnode) {
		hp = append(hp, n)
		i := len(hp) - 1
		for i > 0 {
			p := (i - 1) / 2
			if hp[p].prio <= hp[i].prio {
				break
			}
			hp[p], hp[i] = hp[i], hp[p]
			i = p
		}
	}
	pop := func() *pnode {
		n := hp[0]
		last := len(hp) - 1
		hp[0] = hp[last]
		hp = hp[:last]
		i := 0
		for {
			l, r, m := 2*i+1, 2*i+2, i
			if l < len(hp) && hp[l].prio < hp[m].prio {
				m = l
			}
			if r < len(hp) && hp[r].prio < hp[m].prio {
				m = r
			}
			if m == i {
				break
			}
			hp[m], hp[i] = hp[i], hp[m]
			i = m
		}
		return n
	}
	qlen := func(q map[string][]string) int {
		n := 0
		for _, v := range q {
			n += len(v)
		}
		return n
	}
	push(&pnode{store: x.init.content, queues: map[string][]string{}, prio: xs.dist[x.init.content] * 100})
	var goal *pnode
	for len(hp) > 0 {
		n := pop()
		key := fmt.Sprintf("%d#%s#%d,%d,%d,%s", n.store, queuesCanon(n.queues), n.env.NextReq, n.env.Faults, n.env.Crashes, n.env.Flags)
		if n.env.Held != "" || n.env.Holds > 0 {
			key += fmt.Sprintf("#%s,%d,%v", n.env.Held, n.env.Holds, schedStrings(n.held))
		}
		if visited[key] {
			continue
		}
		visited[key] = true
		xs.nodes++
		if xs.nodes > opts.MaxNodes {
			break
		}
		heldWanted := ""
		if opts.ThenStep != nil && opts.ThenStep.Kind == "release" {
			heldWanted = target.env.Held // the violating transition is the second half of a split step
		}
		if n.store == target.content && n.env.Held == heldWanted && (!opts.NeedIdle || qlen(n.queues) == 0) {
			if opts.ThenStep == nil {
				goal = n
				break
			}
			if opts.ThenStep.Kind == "release" {
				goal = &pnode{store: n.store, queues: n.queues, env: n.env, parent: n, via: *opts.ThenStep, depth: n.depth + 1}
				break
			}
			// the token of the violating transition must be reachable behind tokens that do nothing here
			want := opts.ThenStep.Ctrl + "|" + opts.ThenStep.ID
			for src, items := range n.queues {
				for pos, it := range items {
					if it != want {
						continue
					}
					ok := true
					if strings.HasPrefix(src, "w:") {
						for i := 0; i < pos; i++ {
							p := strings.SplitN(items[i], "|", 2)
							if r := xs.act(n.store, n.env, Trans{Kind: "step", Ctrl: p[0], ID: p[1]}); r.effects > 0 {
								ok = false
							}
						}
					}
					if ok && goal == nil {
						last := *opts.ThenStep
						last.Src = src
						goal = &pnode{store: n.store, queues: n.queues, env: n.env, parent: n, via: last, depth: n.depth + 1}
					}
					break
				}
			}
			if goal != nil {
				break
			}
		}
		add := func(tr Trans, r xResult, env Env) {
			d, inCone := xs.dist[r.succ]
			if !inCone {
				return
			}
			var q map[string][]string
			if r.resets {
				q = enqueue(QExact, map[string][]string{}, r.tokens)
			} else if tr.Kind == "step" || tr.Kind == "hold" {
				dq := dequeue(n.queues, tr)
				q = enqueue(QExact, dq, r.tokens)
			} else {
				q = enqueue(QExact, n.queues, r.tokens)
			}
			var heldMoves []Trans
			if env.Held != "" && tr.Kind != "hold" {
				heldMoves = append(append([]Trans{}, n.held...), tr)
				env.HeldSteps++
			}
			if env.Held == "" {
				q = xs.normalize(r.succ, q)
			}
			if opts.NeedIdle && env.Held == "" && env.Crashes >= sc.CrashBudget {
				// (while a crash is still possible every pending token may simply vanish)
				for _, items := range q {
					last := ""
					for _, it := range items {
						if it == last {
							continue
						}
						last = it
						p := strings.SplitN(it, "|", 2)
						if !xs.consumable(r.succ, p[0], p[1], map[uint64]bool{}) {
							return
						}
					}
				}
			}
			push(&pnode{store: r.succ, queues: q, env: env, parent: n, via: tr, depth: n.depth + 1, prio: d*100 + qlen(q)*2 + n.depth/4, held: heldMoves})
		}
		// split steps: the held call may continue now; nothing else moves once HoldDepth is used up
		heldCtrl, heldID := "", ""
		if n.env.Held != "" {
			hc, hid, hk := heldParts(n.env.Held)
			heldCtrl, heldID = hc, hid
			var begin uint64
			fmt.Sscanf(n.env.Held[strings.LastIndex(n.env.Held, "|")+1:], "%x", &begin)
			if r := xs.actRelease(begin, n.env, hc, hid, hk, n.held); r.ok {
				d, inCone := xs.dist[r.succ]
				if !inCone && os.Getenv("VERIF_DEBUG_REL") != "" {
					fmt.Printf("E1X-REL release %s after %v from content %d: successor %d not in the cone\n%s\n", n.env.Held, schedStrings(n.held), n.store, r.succ, x.W.Canon())
				}
				if inCone {
					env := n.env
					env.Held, env.HeldSteps = "", 0
					q := xs.normalize(r.succ, enqueue(QExact, n.queues, r.tokens))
					push(&pnode{store: r.succ, queues: q, env: env, parent: n, via: Trans{Kind: "release", Ctrl: hc, ID: hid, K: hk}, depth: n.depth + 1, prio: d*100 + qlen(q)*2 + n.depth/4})
				}
			}
			if n.env.HeldSteps >= sc.HoldDepth {
				continue
			}
		}
		// Moves. Tokens without effect are consumed lazily: only when they stand in front of a token that is fired,
		// when their consumption matters (they would have an effect in a direct successor content), or at the target.
		splitItem := func(it string) (string, string) {
			p := strings.SplitN(it, "|", 2)
			return p[0], p[1]
		}
		// popFront consumes the first pos items of a FIFO, which must all be without effect here.
		popFront := func(q map[string][]string, src string, pos int) (map[string][]string, []Trans, bool) {
			var pops []Trans
			for i := 0; i < pos; i++ {
				c0, i0 := splitItem(q[src][0])
				bt := Trans{Kind: "step", Ctrl: c0, ID: i0, Src: src}
				r := xs.act(n.store, n.env, bt)
				if r.effects > 0 {
					return nil, nil, false
				}
				q = enqueue(QExact, dequeue(q, bt), r.tokens)
				pops = append(pops, bt)
			}
			return q, pops, true
		}
		matters := func(ctrl, id string) bool {
			for succ := range x.contentEdges[n.store] {
				if _, inCone := xs.dist[succ]; !inCone {
					continue
				}
				if r := xs.act(succ, n.env, Trans{Kind: "step", Ctrl: ctrl, ID: id}); r.effects > 0 {
					return true
				}
			}
			return false
		}
		atTarget := n.store == target.content
		for src, items := range n.queues {
			fifo := strings.HasPrefix(src, "w:")
			seen := map[string]bool{}
			for pos, it := range items {
				if seen[it] {
					continue
				}
				seen[it] = true
				ctrl, id := splitItem(it)
				if heldBlocks(x.W, heldCtrl, heldID, ctrl, id) {
					break // the held call's partition runs nothing else (and what queues behind this token waits too)
				}
				tr := Trans{Kind: "step", Ctrl: ctrl, ID: id, Src: src}
				r := xs.act(n.store, n.env, tr)
				if r.effects == 0 && !atTarget && !matters(ctrl, id) {
					// a step without effect still matters when it hands on work nobody else holds: a re-queue of an
					// id that is in no queue yet (e.g. a proposal waking its predecessor)
					fresh := false
					for _, tk := range r.tokens {
						it2 := tk.Ctrl + "|" + tk.ID
						if it2 == it {
							continue
						}
						found := false
						for _, q := range n.queues {
							for _, have := range q {
								if have == it2 {
									found = true
								}
							}
						}
						if !found {
							fresh = true
						}
					}
					if !fresh {
						continue
					}
				}
				q := n.queues
				var pops []Trans
				if fifo && pos > 0 {
					var ok bool
					q, pops, ok = popFront(q, src, pos)
					if !ok {
						break // an effectful token stands in front: nothing behind it can move
					}
				}
				// chain the blockers' consumption as intermediate nodes so that the schedule lists them
				parent := n
				for _, bt := range pops {
					parent = &pnode{store: n.store, queues: nil, env: n.env, parent: parent, via: bt, depth: parent.depth + 1}
				}
				saveN, saveQ := n, n.queues
				n = &pnode{store: saveN.store, queues: q, env: saveN.env, parent: parent.parent, via: parent.via, depth: parent.depth, held: saveN.held}
				if len(pops) == 0 {
					n = &pnode{store: saveN.store, queues: q, env: saveN.env, parent: saveN.parent, via: saveN.via, depth: saveN.depth, held: saveN.held}
				}
				add(tr, r, n.env)
				for _, mv := range mapVariants[it] {
					mt := tr
					mt.Map = mv
					if mr := xs.act(n.store, n.env, mt); mr.effects > 0 {
						add(mt, mr, n.env)
					}
				}
				if n.env.Held == "" && n.env.Holds < sc.HoldBudget && r.effects > 0 {
					for k := 1; k < 40; k++ {
						ht := Trans{Kind: "hold", Ctrl: tr.Ctrl, ID: tr.ID, K: k, Src: tr.Src}
						if len(allowedHolds) == 0 {
							break
						}
						if !allowedHolds[fmt.Sprintf("%s|%s|%d", tr.Ctrl, tr.ID, k)] {
							continue
						}
						hr := xs.act(n.store, n.env, ht)
						if !hr.ok {
							break
						}
						env := n.env
						env.Holds++
						env.Held = fmt.Sprintf("%s|%s|%d|%x", tr.Ctrl, tr.ID, k, n.store)
						env.HeldSteps = 0
						add(ht, hr, env)
					}
				}
				if n.env.Held == "" && n.env.Crashes < sc.CrashBudget && r.effects > 0 {
					for k := 0; k < r.effects; k++ {
						ct := Trans{Kind: "crash", Ctrl: tr.Ctrl, ID: tr.ID, K: k, Src: tr.Src}
						cr := xs.act(n.store, n.env, ct)
						env := n.env
						env.Crashes++
						add(ct, cr, env)
					}
				}
				n = saveN
				_ = saveQ
			}
		}
		if n.env.NextReq < len(sc.Requests) {
			tr := Trans{Kind: "client", Fault: sc.Requests[n.env.NextReq].Name}
			if r := xs.act(n.store, n.env, tr); r.ok {
				env := n.env
				env.NextReq++
				add(tr, r, env)
			}
		}
		if n.env.Faults < sc.FaultBudget {
			for _, f := range sc.Faults {
				tr := Trans{Kind: "fault", Fault: f.Name}
				if r := xs.act(n.store, n.env, tr); r.ok {
					env := n.env
					env.Faults++
					env.Flags += f.Flag
					add(tr, r, env)
				}
			}
		}
		if n.env.Held == "" && n.env.Crashes < sc.CrashBudget && qlen(n.queues) > 0 {
			tr := Trans{Kind: "restart", Fault: "crash-between-steps"}
			r := xs.act(n.store, n.env, tr)
			env := n.env
			env.Crashes++
			add(tr, r, env)
		}
	}
	c.Nodes = xs.nodes
	if goal == nil && os.Getenv("VERIF_DEBUG") != "" {
		minD, maxQ := 1<<30, 0
		perD := map[int]int{}
		for k := range visited {
			var st uint64
			fmt.Sscanf(k, "%d#", &st)
			d := xs.dist[st]
			perD[d]++
			if d < minD {
				minD = d
			}
		}
		_ = maxQ
		fmt.Printf("E1X-DEBUG cone=%d contents, init dist=%d, visited=%d, min dist reached=%d, per dist=%v memo=%d dead=%d\n", len(xs.dist), xs.dist[x.init.content], len(visited), minD, perD, len(xs.memo), len(xs.deadMemo))
		n := 0
		for k := range visited {
			var st uint64
			fmt.Sscanf(k, "%d#", &st)
			if xs.dist[st] == minD && n < 2 {
				fmt.Printf("E1X-DEBUG   node %s\n", k)
				n++
				for _, tk := range xs.x.W.allObjectIDsAt(xs.x.contentSnap[st]) {
					r := xs.act(st, Env{NextReq: 9}, Trans{Kind: "step", Ctrl: tk.Ctrl, ID: tk.ID})
					_, in := xs.dist[r.succ]
					fmt.Printf("E1X-DEBUG      %s %s effects=%d succInCone=%v tokens=%v\n", tk.Ctrl, tk.ID, r.effects, in, r.tokens)
				}
			}
		}
	}
	if goal == nil {
		c.Reason = "the candidate's cone holds no exact schedule"
		if xs.nodes > opts.MaxNodes {
			c.Reason = "search budget exhausted"
		}
		return c
	}
	var sched []Trans
	var symQ []string
	for m := goal; m.parent != nil; m = m.parent {
		sched = append(sched, m.via)
		symQ = append(symQ, queuesCanon(m.queues))
	}
	for i, j := 0, len(sched)-1; i < j; i, j = i+1, j-1 {
		sched[i], sched[j] = sched[j], sched[i]
		symQ[i], symQ[j] = symQ[j], symQ[i]
	}
	debugQ := os.Getenv("VERIF_DEBUG") != ""
	// the deciding run: execute the schedule for real under the exact discipline
	var before *StoreView
	var lastRes *StepResult
	full, queues, reason := x.runExact(sched, opts.NeedIdle, func(i int, t Trans) {
		if opts.ThenStep != nil && i == len(sched)-1 {
			before = x.W.View()
		}
	}, func(i int, t Trans, res *StepResult) {
		if i == len(sched)-1 {
			lastRes = res
		}
		if debugQ {
			fmt.Printf("E1X-DEBUG move %d %s (src %s) effects=%v\n    sym after: %s\n", i, t.String(), t.Src, res.Writes, symQ[i])
		}
	})
	if reason != "" {
		c.Reason = "real run: " + reason
		if os.Getenv("VERIF_DEBUG") != "" {
			fmt.Printf("E1X-DEBUG symbolic schedule: %v\nE1X-DEBUG real run: %v\nE1X-DEBUG queues: %s\n", schedStrings(sched), schedStrings(full), queuesCanon(queues))
		}
		return c
	}
	if opts.NeedIdle && queuesCanon(queues) != "" {
		c.Reason = "real run: queues not empty at the end: " + queuesCanon(queues)
		return c
	}
	if opts.Check != nil {
		ok, detail := opts.Check(x.W)
		if !ok {
			c.Reason = "real run: the violation does not show at the end of the exact schedule: " + detail
			return c
		}
		c.Detail = detail
	}
	if opts.ThenStep != nil && opts.CheckStep != nil {
		if lastRes == nil {
			c.Reason = "real run: the violating transition did not run"
			return c
		}
		ok, detail := opts.CheckStep(x.W, before, lastRes)
		if !ok {
			c.Reason = "real run: the transition does not show the violation: " + detail
			return c
		}
		c.Detail = detail
	}
	c.Confirmed = true
	c.Schedule = full
	return c
}

// RunExact executes a schedule for real from the initial state under the exact queue discipline: queues are rebuilt
// from the real watchers' tokens. The schedule lists the moves that matter; a token that stands in front of a
// scheduled one in its FIFO is executed first and must then have no effect (it is one of the tokens the search dropped
// as dead). With drain, all tokens left at the end are executed and must have no effect either. It returns the
// complete schedule that was run, the final queues and a non-empty reason if the run left the exact discipline.
func (x *Explorer) RunExact(sched []Trans, drain bool) ([]Trans, map[string][]string, string) {
	return x.runExact(sched, drain, nil, nil)
}

func (x *Explorer) runExact(sched []Trans, drain bool, beforeMove func(i int, t Trans), afterMove func(i int, t Trans, res *StepResult)) ([]Trans, map[string][]string, string) {
	w := x.W
	w.Restore(x.init.snap)
	queues := map[string][]string{}
	var full []Trans
	nextReq := 0
	item := func(t Trans) string { return t.Ctrl + "|" + t.ID }
	// surplus consumption: a token at a FIFO head or in a bag that the rest of the schedule does not need from that
	// queue is executed right away if that has no effect and produces nothing (tried on the real world, undone otherwise)
	surplusSteps := 0
	consumeSurplus := func(rest []Trans) {
		for progress := true; progress && surplusSteps < 400; {
			progress = false
			for _, av := range exactAvail(queues) {
				have := 0
				for _, it := range queues[av.Src] {
					if it == item(av) {
						have++
					}
				}
				need := 0
				for _, r := range rest {
					if (r.Kind == "step" || r.Kind == "crash") && r.Src == av.Src && item(r) == item(av) {
						need++
					}
				}
				if have <= need {
					continue
				}
				// harmless: the token has no effect now and whatever it re-queues has no effect now either
				// (a re-queue that would wake something is not surplus consumption, it is a move)
				snap := w.Snapshot()
				var chain []Trans
				harmless := true
				work := []Trans{av}
				for len(work) > 0 && len(chain) < 6 {
					cur := work[0]
					work = work[1:]
					res := w.Step(cur.Ctrl, cur.ID)
					if res.Effects > 0 || res.Panic != "" {
						harmless = false
						break
					}
					chain = append(chain, cur)
					for _, tk := range res.Tokens {
						work = append(work, Trans{Kind: "step", Ctrl: tk.Ctrl, ID: tk.ID, Src: "rq:" + tk.Ctrl})
					}
				}
				if !harmless || len(work) > 0 {
					w.Restore(snap)
					continue
				}
				res := StepResult{}
				full = append(full, chain[1:]...)
				surplusSteps++
				full = append(full, av)
				queues = enqueue(QExact, dequeue(queues, av), res.Tokens)
				progress = true
				break
			}
		}
	}
	_ = consumeSurplus
	var heldBegin *WorldSnap
	for n, t := range sched {
		switch t.Kind {
		case "release":
			full = append(full, t)
			if beforeMove != nil {
				beforeMove(n, t)
			}
			res, reached := w.Release(t.Ctrl, t.ID, t.K, heldBegin, w.Snapshot())
			if !reached {
				return full, queues, fmt.Sprintf("%s: the hold point is not reached again", t.String())
			}
			queues = enqueue(QExact, queues, res.Tokens)
			if afterMove != nil {
				afterMove(n, t, &res)
			}
		case "step", "crash", "hold":
			q := queues[t.Src]
			pos := -1
			for i, it := range q {
				if it == item(t) {
					pos = i
					break
				}
			}
			if pos < 0 {
				return full, queues, fmt.Sprintf("token %s not in queue %s at position %d of the schedule (queues %s)", t.String(), t.Src, n, queuesCanon(queues))
			}
			if strings.HasPrefix(t.Src, "w:") {
				for i := 0; i < pos; i++ {
					p := strings.SplitN(queues[t.Src][0], "|", 2)
					bt := Trans{Kind: "step", Ctrl: p[0], ID: p[1], Src: t.Src}
					res := w.Step(bt.Ctrl, bt.ID)
					full = append(full, bt)
					if res.Effects > 0 || res.Panic != "" {
						return full, queues, fmt.Sprintf("token %s in front of %s in %s is not a no-op: %v", bt.String(), t.String(), t.Src, res.Writes)
					}
					queues = enqueue(QExact, dequeue(queues, bt), res.Tokens)
				}
			}
			full = append(full, t)
			if beforeMove != nil {
				beforeMove(n, t)
			}
			if t.Kind == "hold" {
				heldBegin = w.Snapshot()
				hres, reached := w.Hold(t.Ctrl, t.ID, t.K)
				if !reached {
					return full, queues, fmt.Sprintf("%s: the step makes fewer calls in the real run", t.String())
				}
				queues = enqueue(QExact, dequeue(queues, t), hres.Tokens)
				if afterMove != nil {
					afterMove(n, t, &hres)
				}
			} else if t.Kind == "crash" {
				w.fuse.Arm(t.K)
				cres := w.Step(t.Ctrl, t.ID)
				queues = enqueue(QExact, map[string][]string{}, w.Restart())
				if afterMove != nil {
					afterMove(n, t, &cres)
				}
			} else {
				res := w.stepT(t)
				queues = enqueue(QExact, dequeue(queues, t), res.Tokens)
				if afterMove != nil {
					afterMove(n, t, &res)
				}
			}
		case "restart":
			full = append(full, t)
			w.fuse.Kill()
			queues = enqueue(QExact, map[string][]string{}, w.Restart())
		case "client":
			if nextReq >= len(x.Sc.Requests) {
				return full, queues, "no request left"
			}
			full = append(full, t)
			r := x.Sc.Requests[nextReq]
			nextReq++
			var call *Call
			if r.Set != nil {
				call = w.GoSet(context.Background(), r.Set)
			} else {
				call = r.Call(w)
			}
			toks := w.Settle()
			if !call.Done {
				call.Cancel()
				toks = append(toks, w.Settle()...)
			}
			queues = enqueue(QExact, queues, toks)
		case "fault":
			for _, f := range x.Sc.Faults {
				if f.Name == t.Fault {
					full = append(full, t)
					f.Apply(w)
					queues = enqueue(QExact, queues, w.Settle())
				}
			}
		}
	}
	if drain {
		for guard := 0; guard < 10000; guard++ {
			av := exactAvail(queues)
			if len(av) == 0 {
				break
			}
			t := av[0]
			res := w.Step(t.Ctrl, t.ID)
			full = append(full, t)
			if res.Effects > 0 || res.Panic != "" {
				return full, queues, fmt.Sprintf("leftover token %s is not a no-op at the end: %v", t.String(), res.Writes)
			}
			queues = enqueue(QExact, dequeue(queues, t), res.Tokens)
		}
	}
	return full, queues, ""
}

func schedStrings(s []Trans) []string {
	var out []string
	for _, t := range s {
		out = append(out, t.String())
	}
	return out
}

// candidates keeps track of what the abstraction found and what the exact model confirmed.
type candidates struct {
	needIdle    bool
	total       int
	unconfirmed int
	nodes       int
	confirmed   map[string]bool
	attempts    map[string]int
	notes       []string
	pending     []pendingCand
	late        map[string][]int // per class: the slots of pending that hold the most recent candidates
	lateNext    map[string]int
}

type pendingCand struct {
	s         *E1State
	class     string
	what      string
	check     func(w *World) (bool, string)
	then      *Trans
	checkStep func(w *World, before *StoreView, res *StepResult) (bool, string)
}

func newCandidates(needIdle bool) *candidates {
	return &candidates{needIdle: needIdle, confirmed: map[string]bool{}, attempts: map[string]int{}}
}

// consider notes a candidate; candidates are confirmed after the exploration (the cone needs the finished graph).
func (c *candidates) consider(x *Explorer, rep *Report, sc *Scenario, s *E1State, class, what string, check func(w *World) (bool, string)) {
	c.total++
	max := 8
	if !c.needIdle {
		max = 80 // safety candidates: many contents show the same violation; some of them are exact-reachable
	}
	if c.attempts[class] >= max {
		// keep the first half (the shallowest states, shortest schedules) and, of the rest, the most recent ones: the
		// search is breadth-first, so those are the deepest states – the ones in which every other request of the
		// scenario has run its course too, which FIFO queues often require
		if c.late == nil {
			c.late = map[string][]int{}
			c.lateNext = map[string]int{}
		}
		slots := c.late[class]
		if len(slots) == 0 {
			n := 0
			for i := range c.pending {
				if c.pending[i].class == class && c.pending[i].then == nil {
					n++
					if n > max/2 {
						slots = append(slots, i)
					}
				}
			}
			c.late[class] = slots
		}
		if len(slots) > 0 {
			i := slots[c.lateNext[class]%len(slots)]
			c.lateNext[class]++
			c.pending[i] = pendingCand{s: s, class: class, what: what, check: check}
		}
		return
	}
	c.attempts[class]++
	c.pending = append(c.pending, pendingCand{s: s, class: class, what: what, check: check})
}

// considerStep notes a candidate that shows in a transition: tr taken from state s.
func (c *candidates) considerStep(s *E1State, tr Trans, class, what string, checkStep func(w *World, before *StoreView, res *StepResult) (bool, string)) {
	c.total++
	max := 80
	if c.attempts[class] >= max {
		return
	}
	c.attempts[class]++
	t := tr
	c.pending = append(c.pending, pendingCand{s: s, class: class, what: what, then: &t, checkStep: checkStep})
}

// resolve runs the exact-queue confirmation for the noted candidates; only confirmed ones become violations.
func (c *candidates) resolve(x *Explorer, rep *Report, sc *Scenario) {
	for _, p := range c.pending {
		if c.confirmed[p.class] {
			continue
		}
		conf := x.ConfirmExact(p.s, ConfirmOpts{NeedIdle: c.needIdle && p.then == nil, Check: p.check, ThenStep: p.then, CheckStep: p.checkStep})
		c.nodes += conf.Nodes
		if !conf.Confirmed && p.then == nil && p.check != nil {
			// the cone search knows no interleaving moves (and may run out of budget): try the candidate's own trace
			// under the exact queue discipline (tokens in front of the wanted one must be no-ops)
			trace := p.s.Trace()
			if why := x.RealizeExact(trace, c.needIdle, nil); why == "" {
				if ok, detail := p.check(x.W); ok {
					conf = &Confirmation{Confirmed: true, Schedule: append([]Trans{}, x.realized...), Detail: detail + " [the abstraction's own trace re-executed under exact queues]", Nodes: conf.Nodes}
				} else {
					conf.Reason += "; own trace under exact queues: the violation does not show: " + detail
				}
			} else {
				conf.Reason += "; own trace under exact queues: " + why
			}
		}
		if !conf.Confirmed {
			note := fmt.Sprintf("UNCONFIRMED property=%s class=%s scenario=%q reason=%s nodes=%d what=%q abstract-trace=%v", x.RC.ID, p.class, sc.Name, conf.Reason, conf.Nodes, oneLine(p.what), p.s.TraceStrings())
			fmt.Println(note)
			if len(c.notes) < 20 {
				c.notes = append(c.notes, note)
			}
			continue
		}
		c.confirmed[p.class] = true
		rep.Violate(p.class, p.what+"; exact-queue schedule: "+strings.Join(schedStrings(conf.Schedule), " ")+" => "+conf.Detail,
			map[string]interface{}{"kind": "e1-trace", "scenario": sc.Name, "trace": conf.Schedule, "exact": true})
	}
	for class := range c.attempts {
		if !c.confirmed[class] {
			c.unconfirmed++
		}
	}
}
