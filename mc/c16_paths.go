package mc

import (
	"fmt"
	"sort"
	"strings"

	"github.com/onosproject/onos-config/pkg/utils"
	pathutils "github.com/onosproject/onos-config/pkg/utils/path"
	"github.com/openconfig/gnmi/proto/gnmi"
)

// C16 (pure part) – bounded-exhaustive enumeration of gNMI paths against four oracles:
//
//	roundtrip : ParseGNMIElements(SplitPath(StrPath(p))) == p
//	injective : p != q  =>  StrPath(p) != StrPath(q)
//	split     : SplitPath(StrPath(p)) has one part per element, each the rendering of that element
//	parent    : GetParentPath(StrPath(p)) == StrPath(p without its last element)   ("" for one element)
//
// Element names are YANG identifiers (optionally module-prefixed); key names are identifiers;
// key values range over the accepted alphabet plus escape-worthy characters.

type c16Elem struct {
	Name string
	Keys [][2]string // sorted by key name
}

func (e c16Elem) pb() *gnmi.PathElem {
	pe := &gnmi.PathElem{Name: e.Name}
	if len(e.Keys) > 0 {
		pe.Key = map[string]string{}
		for _, kv := range e.Keys {
			pe.Key[kv[0]] = kv[1]
		}
	}
	return pe
}

func (e c16Elem) String() string {
	var b strings.Builder
	b.WriteString(e.Name)
	for _, kv := range e.Keys {
		fmt.Fprintf(&b, "{%s=%q}", kv[0], kv[1])
	}
	return b.String()
}

var c16Names = []string{"a", "ab", "m:a"}
var c16KeyChars = []string{"a", "0", "-", ".", "/", "]", "[", "\\", "=", " "}

func c16Values(maxLen int) []string {
	var out []string
	var rec func(prefix string, n int)
	rec = func(prefix string, n int) {
		if n == 0 {
			return
		}
		for _, c := range c16KeyChars {
			out = append(out, prefix+c)
			rec(prefix+c, n-1)
		}
	}
	rec("", maxLen)
	return out
}

// c16Elems enumerates elements with 0..maxKeys keys over key names k,k2,k3 and the given value sets
// (values1 for single-key elements, valuesN for multi-key elements).
func c16Elems(names []string, maxKeys int, values1, valuesN []string) []c16Elem {
	keyNames := []string{"k", "k2", "k3"}
	var out []c16Elem
	for _, n := range names {
		out = append(out, c16Elem{Name: n})
		if maxKeys >= 1 {
			for _, kn := range keyNames[:2] {
				for _, v := range values1 {
					out = append(out, c16Elem{Name: n, Keys: [][2]string{{kn, v}}})
				}
			}
		}
		if maxKeys >= 2 {
			for _, v1 := range valuesN {
				for _, v2 := range valuesN {
					out = append(out, c16Elem{Name: n, Keys: [][2]string{{"k", v1}, {"k2", v2}}})
				}
			}
		}
		if maxKeys >= 3 {
			for _, v1 := range valuesN {
				for _, v2 := range valuesN {
					for _, v3 := range valuesN {
						out = append(out, c16Elem{Name: n, Keys: [][2]string{{"k", v1}, {"k2", v2}, {"k3", v3}}})
					}
				}
			}
		}
	}
	return out
}

func c16Special(elems []c16Elem) string {
	set := map[string]bool{}
	for _, e := range elems {
		for _, kv := range e.Keys {
			for _, c := range []string{"/", "]", "[", "\\", "=", " "} {
				if strings.Contains(kv[1], c) {
					if c == " " {
						c = "space"
					}
					set[c] = true
				}
			}
		}
	}
	var l []string
	for c := range set {
		l = append(l, c)
	}
	sort.Strings(l)
	if len(l) == 0 {
		return "plain"
	}
	return strings.Join(l, "")
}

func c16Canon(elems []c16Elem) string {
	var b strings.Builder
	for _, e := range elems {
		b.WriteString("|")
		b.WriteString(e.String())
	}
	return b.String()
}

type c16Stats struct {
	evaluations int64
	nontrivial  map[string]bool // distinct textual forms that contain at least one key
	seen        map[string]string
}

func c16CheckOne(rep *Report, st *c16Stats, elems []c16Elem) {
	st.evaluations++
	p := &gnmi.Path{}
	for _, e := range elems {
		p.Elem = append(p.Elem, e.pb())
	}
	canon := c16Canon(elems)
	replay := map[string]interface{}{"kind": "c16-path", "elems": elems}
	var s string
	func() {
		defer func() {
			if r := recover(); r != nil {
				rep.Violate("panic/"+c16Special(elems), fmt.Sprintf("panic %v on path %s", r, canon), replay)
			}
		}()
		s = utils.StrPath(p)
		// injective
		if prev, ok := st.seen[s]; ok && prev != canon {
			rep.Violate("injective/"+c16Special(elems), fmt.Sprintf("paths %s and %s share the textual form %q", prev, canon, s), replay)
		}
		st.seen[s] = canon
		hasKey := false
		for _, e := range elems {
			if len(e.Keys) > 0 {
				hasKey = true
			}
		}
		if hasKey {
			st.nontrivial[s] = true
		}
		// split
		parts := utils.SplitPath(s)
		splitOK := len(parts) == len(elems)
		if splitOK {
			for i, e := range elems {
				want := strings.TrimPrefix(utils.StrPathElem([]*gnmi.PathElem{e.pb()}), "/")
				if parts[i] != want {
					splitOK = false
				}
			}
		}
		if !splitOK {
			rep.Violate("split/"+c16Special(elems), fmt.Sprintf("SplitPath(%q) = %q does not cut at the %d element boundaries of %s", s, parts, len(elems), canon), replay)
		}
		// roundtrip
		q, err := utils.ParseGNMIElements(parts)
		if err != nil {
			rep.Violate("roundtrip/"+c16Special(elems), fmt.Sprintf("ParseGNMIElements(SplitPath(%q)) fails: %v (path %s)", s, err, canon), replay)
		} else if !c16Equal(q, elems) {
			rep.Violate("roundtrip/"+c16Special(elems), fmt.Sprintf("ParseGNMIElements(SplitPath(%q)) = %v differs from %s", s, q, canon), replay)
		}
		// parent
		wantParent := ""
		if len(elems) > 1 {
			wantParent = utils.StrPathElem(p.Elem[:len(p.Elem)-1])
		}
		if got := pathutils.GetParentPath(s); got != wantParent {
			// the cause is what matters: a '/' inside a key value, or something else
			where := "other:" + c16Special(elems)
			if strings.Contains(c16Special(elems), "/") {
				where = "key-value-contains-slash"
			}
			rep.Violate("parent/"+where, fmt.Sprintf("GetParentPath(%q) = %q, want %q", s, got, wantParent), replay)
		}
	}()
}

func c16Equal(q *gnmi.Path, elems []c16Elem) bool {
	if len(q.Elem) != len(elems) {
		return false
	}
	for i, e := range elems {
		if q.Elem[i].Name != e.Name || len(q.Elem[i].Key) != len(e.Keys) {
			return false
		}
		for _, kv := range e.Keys {
			if v, ok := q.Elem[i].Key[kv[0]]; !ok || v != kv[1] {
				return false
			}
		}
	}
	return true
}

func checkC16(rc *RunCtx) *Report {
	rep := newReport("exploration")
	st := &c16Stats{nontrivial: map[string]bool{}, seen: map[string]string{}}
	if rc.Replay != "" {
		var elems []c16Elem
		var journey string
		if err := loadReplay(rc.Replay, "journey", &journey); err == nil && journey != "" {
			c16Journeys(rc, rep)
			rep.Coverage["evaluations"] = 1
			return rep
		}
		if err := loadReplay(rc.Replay, "elems", &elems); err != nil {
			rep.HarnessErr = err.Error()
			return rep
		}
		c16CheckOne(rep, st, elems)
		rep.Coverage["evaluations"] = st.evaluations
		return rep
	}
	maxKeys, len1, lenN := 2, 2, 1
	if rc.Thorough() {
		maxKeys, len1, lenN = 3, 3, 1
	}
	// single-key elements: values of length ≤len1; two-key elements: ≤2; three-key elements (thorough): ≤lenN
	rich := c16Elems(c16Names, 1, c16Values(len1), nil)
	for _, n := range c16Names {
		vs := c16Values(2)
		for _, v1 := range vs {
			for _, v2 := range vs {
				rich = append(rich, c16Elem{Name: n, Keys: [][2]string{{"k", v1}, {"k2", v2}}})
			}
		}
		if maxKeys >= 3 {
			v := c16Values(lenN)
			for _, v1 := range v {
				for _, v2 := range v {
					for _, v3 := range v {
						rich = append(rich, c16Elem{Name: n, Keys: [][2]string{{"k", v1}, {"k2", v2}, {"k3", v3}}})
					}
				}
			}
		}
	}
	// a small neighbour alphabet: every name, no key / one key with each single character
	poor := c16Elems(c16Names[:2], 1, c16Values(1), nil)
	poor = append(poor, c16Elem{Name: "m:a"}, c16Elem{Name: "a", Keys: [][2]string{{"k", "a"}, {"k2", "/"}}})
	medium := c16Elems(c16Names, 1, c16Values(1), nil)
	for _, n := range c16Names {
		for _, v1 := range c16Values(1) {
			for _, v2 := range c16Values(1) {
				medium = append(medium, c16Elem{Name: n, Keys: [][2]string{{"k", v1}, {"k2", v2}}})
			}
		}
	}
	// length 1
	for _, e := range rich {
		c16CheckOne(rep, st, []c16Elem{e})
	}
	// length 2: rich x poor, poor x rich
	for _, e := range rich {
		for _, f := range poor {
			c16CheckOne(rep, st, []c16Elem{e, f})
			c16CheckOne(rep, st, []c16Elem{f, e})
		}
	}
	// length 3: poor x medium x poor
	for _, f := range poor {
		for _, e := range medium {
			for _, g := range poor {
				c16CheckOne(rep, st, []c16Elem{f, e, g})
			}
		}
	}
	rep.Sample(3, map[string]interface{}{"path": c16Canon([]c16Elem{rich[len(rich)/2]}), "text": utils.StrPathElem([]*gnmi.PathElem{rich[len(rich)/2].pb()})})
	rep.Sample(3, map[string]interface{}{"path": c16Canon([]c16Elem{poor[7], medium[len(medium)-5], poor[3]})})
	rep.Coverage["evaluations"] = st.evaluations
	rep.Coverage["distinct_nontrivial"] = len(st.nontrivial)
	rep.Coverage["distinct_textual_forms"] = len(st.seen)
	rep.Coverage["rule"] = fmt.Sprintf("all paths of 1 element over %d rich elements (names a,ab,m:a; 0..%d keys k,k2,k3; key values of length 1..%d over %q, 1..2 for two-key elements), all 2-element paths rich x poor and poor x rich (%d poor elements), all 3-element paths poor x medium x poor (%d medium elements); non-trivial = distinct textual forms containing at least one key; oracles: roundtrip, injective, split, parent",
		len(rich), maxKeys, len1, strings.Join(c16KeyChars, ""), len(poor), len(medium))
	rep.Assumptions = append(rep.Assumptions, "element and key names are YANG identifiers; key values range over the listed alphabet only")
	c16Journeys(rc, rep)
	return rep
}

func init() { registerBubble("C16", checkC16) }
