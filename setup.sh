#!/bin/bash
# Offline setup: warm the build cache by building the checker once.
set -eu
cd "$(dirname "$0")"
./build.sh
echo "setup ok"
