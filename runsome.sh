#!/bin/bash
# usage: runsome.sh <tier> <id>...  -- like runall.sh for the listed checks
TIER=$1; shift
cd "$(dirname "$0")"
for id in "$@"; do
  s=$(date +%s)
  out=$(./check $id $TIER 2>&1); rc=$?
  e=$(( $(date +%s) - s ))
  echo "$id exit=$rc ${e}s $(echo "$out" | grep -a -c '^VIOLATION') violations $(echo "$out" | grep -a -c '^KNOWN-FINDING') known $(echo "$out" | grep -a -o '"exhaustive":[a-z]*' | tail -1)"
  echo "$out" | grep -a '^VIOLATION\|^  class=\|HARNESS' | cut -c1-400 | head -6
done
