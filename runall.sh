#!/bin/bash
# usage: runall.sh [tier] -- runs every claimed check sequentially, prints one line each
TIER=${1:-quick}
cd /verif
for id in $(python3 -c "import json;print(' '.join(c['property_id'] for c in json.load(open('MANIFEST.json'))['checks']))"); do
  s=$(date +%s)
  out=$(./check $id $TIER 2>&1); rc=$?
  e=$(( $(date +%s) - s ))
  echo "$id exit=$rc ${e}s $(echo "$out" | grep -a -c '^VIOLATION') violations $(echo "$out" | grep -a -c '^KNOWN-FINDING') known"
  echo "$out" | grep -a '^VIOLATION\|^  class=' | head -6
done
