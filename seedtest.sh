#!/bin/bash
# usage: seedtest.sh <seed dir with patch.diff> <check id> [tier] -- applies the patch to /repo, runs the check, reverts
D=$1; ID=$2; TIER=${3:-quick}
cd /repo && git diff --quiet || { echo "repo dirty"; exit 9; }
git -C /repo apply "$D/patch.diff" 2>/dev/null || git -C /repo apply -3 "$D/patch.diff" 2>/dev/null || { echo "PATCH DOES NOT APPLY: $D"; git -C /repo checkout -- . ; exit 8; }
cd /verif && timeout 1500 ./check $ID $TIER ${SEED_ARGS:-} > /tmp/seedtest.$$.log 2>&1; rc=$?
git -C /repo checkout -- . ; git -C /repo reset -q
grep -a 'VIOLATION\|class=\|RESULT\|HARNESS' /tmp/seedtest.$$.log | cut -c1-400 | head -${SEED_LINES:-8}
echo "seed $D check $ID exit=$rc"
rm -f /tmp/seedtest.$$.log
