#!/bin/bash
# usage: seedtest.sh <seed dir with patch.diff> <check id> [tier] -- applies the patch to /repo, runs the check, reverts
D=$1; ID=$2; TIER=${3:-quick}
cd /repo && git diff --quiet || { echo "repo dirty"; exit 9; }
PATCH="$D/patch.diff"; [ -f "$D/patch.rebased.diff" ] && PATCH="$D/patch.rebased.diff"
git -C /repo apply "$PATCH" 2>/dev/null || { echo "PATCH DOES NOT APPLY: $D"; git -C /repo reset -q --hard HEAD; exit 8; }
cd /verif && timeout 1500 ./check $ID $TIER ${SEED_ARGS:-} > /tmp/seedtest.$$.log 2>&1; rc=$?
git -C /repo reset -q --hard HEAD
grep -a 'VIOLATION\|class=\|RESULT\|HARNESS' /tmp/seedtest.$$.log | cut -c1-400 | head -${SEED_LINES:-8}
echo "seed $D check $ID exit=$rc"
rm -f /tmp/seedtest.$$.log
