#!/usr/bin/env python3
# Copies the verified seeded changes from /tmp/seeded into /verif/seeded/<id>/<k>/ (patch.diff = the version that
# applies to /repo's HEAD, patch.orig.diff = the sub-agent's original when a rebase was needed, demo/, meta.json).
import json,os,shutil,glob,sys
SRC='/tmp/seeded'; DST='/verif/seeded'
os.makedirs(DST,exist_ok=True)
kept=0
for d in sorted(glob.glob(SRC+'/C*/[123]')):
    pid,k=d.split('/')[-2:]
    vf='/tmp/seedverify/%s-%s.json'%(pid,k)
    if not os.path.exists(vf): continue
    v=json.load(open(vf))
    ok=v.get('applies') and v.get('builds') and v.get('suite_passes_with_patch') and v.get('demo_with_patch')=='fail' and v.get('demo_without_patch')=='pass'
    out=os.path.join(DST,pid,k)
    if not ok:
        print('NOT KEPT',pid,k,v); 
        if os.path.isdir(out): shutil.rmtree(out)
        continue
    os.makedirs(out,exist_ok=True)
    reb=os.path.join(d,'patch.rebased.diff')
    if os.path.exists(reb):
        shutil.copy(reb,os.path.join(out,'patch.diff')); shutil.copy(os.path.join(d,'patch.diff'),os.path.join(out,'patch.orig.diff'))
    else:
        shutil.copy(os.path.join(d,'patch.diff'),os.path.join(out,'patch.diff'))
    if os.path.isdir(os.path.join(out,'demo')): shutil.rmtree(os.path.join(out,'demo'))
    if os.path.isdir(os.path.join(d,'demo')): shutil.copytree(os.path.join(d,'demo'),os.path.join(out,'demo'))
    m=json.load(open(os.path.join(d,'meta.json')))
    cmd=(m.get('demo_cmd') or m.get('demo') or '').replace('/tmp/seeded/','/verif/seeded/')
    meta={'property':pid,'seed':k,'breaks':m.get('summary',''),'needs_in_order_to_manifest':m.get('needs',''),'files':m.get('files',[]),
          'demo_cmd':cmd,
          'verified':{'how':'scratch git worktree of /repo HEAD under /tmp (removed afterwards): git apply patch.diff; go build ./...; go test -vet=off -count=1 ./... (upstream suite); cp -r demo/. .; demo_cmd (must fail); git apply -R patch.diff; demo_cmd (must pass)',
                      'patch_applies_at_head':True,'rebased_onto_fix_commits':os.path.exists(reb),'builds':True,'upstream_suite_passes_with_patch':True,'demo_fails_with_patch':True,'demo_passes_without_patch':True}}
    old=os.path.join(out,'meta.json')
    if os.path.exists(old):
        try:
            o=json.load(open(old))
            for key in ('caught_by','checks_run'):
                if key in o: meta[key]=o[key]
        except Exception: pass
    json.dump(meta,open(old,'w'),indent=1)
    kept+=1
print('kept',kept)
