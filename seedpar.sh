#!/bin/bash
# usage: seedpar.sh <seed dir with patch.diff> <check id> [tier]
# Runs one check against a seeded change WITHOUT touching /repo: a scratch worktree of /repo's HEAD gets the patch, a
# scratch copy of the harness is built against it (VERIF_REPO), both are removed afterwards. Several can run in parallel.
D=$(cd "$1" && pwd); ID=$2; TIER=${3:-quick}
N=$$
WT=/tmp/sp.wt.$N; VR=/tmp/sp.vr.$N
PATCH="$D/patch.diff"; [ -f "$D/patch.rebased.diff" ] && PATCH="$D/patch.rebased.diff"
git -C /repo worktree add --detach "$WT" HEAD >/dev/null 2>&1 || { echo "worktree failed"; exit 9; }
cleanup(){ git -C /repo worktree remove --force "$WT" >/dev/null 2>&1; rm -rf "$VR" "$WT"; }
trap cleanup EXIT
git -C "$WT" apply "$PATCH" 2>/dev/null || { echo "PATCH DOES NOT APPLY: $D"; exit 8; }
mkdir -p "$VR"
rsync -a --exclude .git --exclude bin --exclude seeded --exclude replays --exclude '.work*' --exclude evidence /verif/ "$VR/"
mkdir -p "$VR/evidence" "$VR/replays"
cd "$VR" && VERIF_REPO="$WT" timeout ${SEED_TIMEOUT:-2400} ./check $ID $TIER ${SEED_ARGS:-} > "$VR/out.log" 2>&1; rc=$?
grep -a 'VIOLATION\|class=\|RESULT\|HARNESS\|UNCONFIRMED' "$VR/out.log" | cut -c1-400 | head -${SEED_LINES:-8}
echo "seed $D check $ID tier $TIER exit=$rc"
[ -n "${SEED_KEEP_LOG:-}" ] && cp "$VR/out.log" "$SEED_KEEP_LOG"
exit $rc
