#!/bin/bash
# usage: seedverify2.sh <Cxx> [k]   -- verifies /tmp/seedout/<Cxx> in a fresh scratch worktree of /repo HEAD and, if everything
# holds (applies, builds, upstream suite passes with it, demo fails with it and passes without), keeps it as seeded/<Cxx>/<k>/
ID=$1; K=${2:-4}
SRC=${SEEDSRC:-/tmp/seedout}/$ID
export GOFLAGS=-mod=mod GOPROXY=off GOSUMDB=off GOTOOLCHAIN=local
WT=/tmp/sv.wt.$ID.$$
[ -f $SRC/patch.diff ] && [ -f $SRC/meta.json ] || { echo "$ID: no delivery"; exit 3; }
git -C /repo worktree add --detach $WT HEAD >/dev/null 2>&1
trap 'git -C /repo worktree remove --force $WT >/dev/null 2>&1; rm -rf $WT' EXIT
cd $WT
git apply $SRC/patch.diff || { echo "$ID: patch does not apply"; exit 4; }
if git diff --name-only | grep -q '_test.go\|zz_verif.go\|go.mod'; then echo "$ID: patch touches tests/hooks"; exit 4; fi
go build ./... || { echo "$ID: build fails"; exit 5; }
go test -vet=off -count=1 ./... > /tmp/sv.suite.$ID.log 2>&1 || { sleep 20; go test -vet=off -count=1 -p 2 ./... > /tmp/sv.suite.$ID.log 2>&1; } || { echo "$ID: SUITE FAILS with patch"; grep -a 'FAIL' /tmp/sv.suite.$ID.log | head; exit 6; }
cp -r $SRC/demo/. .
CMD=$(jq -r .demo_cmd $SRC/meta.json)
bash -c "$CMD" > /tmp/sv.demo1.$ID.log 2>&1; r1=$?
git apply -R $SRC/patch.diff
bash -c "$CMD" > /tmp/sv.demo2.$ID.log 2>&1; r2=$?
echo "$ID: demo with patch exit=$r1, without exit=$r2"
if [ $r1 -ne 0 ] && [ $r2 -eq 0 ]; then
  OUT=/verif/seeded/$ID/$K; mkdir -p $OUT; rm -rf $OUT/demo
  cp $SRC/patch.diff $OUT/; cp -r $SRC/demo $OUT/demo
  jq --arg k "$K" '{property:.property, seed:$k, breaks:.breaks, needs_in_order_to_manifest:.needs_in_order_to_manifest, files:.files, demo_cmd:.demo_cmd,
     verified:{how:"scratch git worktree of /repo HEAD under /tmp (removed afterwards): git apply patch.diff; go build ./...; go test -vet=off -count=1 ./... (upstream suite); cp -r demo/. .; demo_cmd (must fail); git apply -R patch.diff; demo_cmd (must pass)", patch_applies_at_head:true, builds:true, upstream_suite_passes_with_patch:true, demo_fails_with_patch:true, demo_passes_without_patch:true}}' $SRC/meta.json > $OUT/meta.json
  echo "$ID: KEPT as $OUT"
else
  echo "$ID: NOT KEPT"; tail -5 /tmp/sv.demo1.$ID.log; tail -5 /tmp/sv.demo2.$ID.log; exit 7
fi
